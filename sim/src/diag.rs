// Parser for seed's diagnostics as C17 states them:
//   <path>:<line>:<col>: [in '<function>': ]<message>
//   Stacktrace:
//     <path>:<line>:<col>: in '<caller>'

#[derive(Clone, Debug, PartialEq)]
pub struct Head {
    pub line: u64,
    pub col: u64,
    pub func: Option<String>,
    pub msg: String,
}

#[derive(Clone, Debug, PartialEq)]
pub struct TraceLine {
    pub line: u64,
    pub col: u64,
    pub caller: String,
}

#[derive(Clone, Debug)]
pub struct Diag {
    pub head: Head,
    pub has_stacktrace_header: bool,
    pub trace: Vec<TraceLine>,
    pub junk: Vec<String>, // lines that fit neither form
    pub junk_before_trace_end: bool, // an unclassified line precedes the last stack-trace line
}

fn take_num(s: &str) -> Option<(u64, &str)> {
    let end = s.find(|c: char| !c.is_ascii_digit())?;
    if end == 0 {
        return None;
    }
    let n = s[..end].parse().ok()?;
    Some((n, &s[end..]))
}

pub fn parse_head(line: &str, argv1: &str) -> Option<Head> {
    let rest = line.strip_prefix(argv1)?.strip_prefix(':')?;
    let (l, rest) = take_num(rest)?;
    let rest = rest.strip_prefix(':')?;
    let (c, rest) = take_num(rest)?;
    let rest = rest.strip_prefix(':')?;
    let rest = rest.strip_prefix(' ')?;
    if let Some(r2) = rest.strip_prefix("in '") {
        if let Some(end) = r2.find("': ") {
            return Some(Head { line: l, col: c, func: Some(r2[..end].to_string()), msg: r2[end + 3..].to_string() });
        }
    }
    Some(Head { line: l, col: c, func: None, msg: rest.to_string() })
}

// Split a message into leading location segments `<l>:<c>:[ in '<f>':] ` and
// the remaining text.  The first segment comes from parse_head.
pub fn segments(h: &Head) -> (Vec<(u64, u64, Option<String>)>, String) {
    let mut segs = vec![(h.line, h.col, h.func.clone())];
    let mut msg = h.msg.clone();
    loop {
        let m = msg.clone();
        let Some((l, rest)) = take_num(&m) else { break };
        let Some(rest) = rest.strip_prefix(':') else { break };
        let Some((c, rest)) = take_num(rest) else { break };
        let Some(rest) = rest.strip_prefix(':') else { break };
        let Some(rest) = rest.strip_prefix(' ') else { break };
        if let Some(r2) = rest.strip_prefix("in '") {
            if let Some(end) = r2.find("': ") {
                segs.push((l, c, Some(r2[..end].to_string())));
                msg = r2[end + 3..].to_string();
                continue;
            }
        }
        segs.push((l, c, None));
        msg = rest.to_string();
    }
    (segs, msg)
}

pub fn parse_trace_line(line: &str, argv1: &str) -> Option<TraceLine> {
    let rest = line.strip_prefix("  ")?.strip_prefix(argv1)?.strip_prefix(':')?;
    let (l, rest) = take_num(rest)?;
    let rest = rest.strip_prefix(':')?;
    let (c, rest) = take_num(rest)?;
    let rest = rest.strip_prefix(": in '")?;
    let caller = rest.strip_suffix('\'')?;
    Some(TraceLine { line: l, col: c, caller: caller.to_string() })
}

// The message of a print may span lines only if the program's text does; W2
// diagnostics are single-line, so every physical line is classified.
pub fn parse(stderr: &[u8], argv1: &[u8]) -> Option<Diag> {
    let text = String::from_utf8_lossy(stderr).to_string();
    let a1 = String::from_utf8_lossy(argv1).to_string();
    if !text.ends_with('\n') {
        return None;
    }
    let mut lines = text[..text.len() - 1].split('\n');
    let first = lines.next()?;
    let head = parse_head(first, &a1)?;
    let mut d = Diag { head, has_stacktrace_header: false, trace: vec![], junk: vec![], junk_before_trace_end: false };
    for l in lines {
        if !d.has_stacktrace_header && l == "Stacktrace:" {
            if !d.junk.is_empty() {
                d.junk_before_trace_end = true;
            }
            d.has_stacktrace_header = true;
            continue;
        }
        if d.has_stacktrace_header {
            if let Some(t) = parse_trace_line(l, &a1) {
                if !d.junk.is_empty() {
                    d.junk_before_trace_end = true;
                }
                d.trace.push(t);
                continue;
            }
        }
        d.junk.push(l.to_string());
    }
    Some(d)
}

// `SomethingFailed` / CamelCase internal wrapper identifiers leaking into text
pub fn internal_identifier(msg: &str) -> Option<String> {
    let b: Vec<char> = msg.chars().collect();
    let mut i = 0;
    while i < b.len() {
        if b[i].is_ascii_uppercase() && (i == 0 || !b[i - 1].is_ascii_alphanumeric()) {
            let mut j = i;
            while j < b.len() && b[j].is_ascii_alphanumeric() {
                j += 1;
            }
            let w: String = b[i..j].iter().collect();
            if w.ends_with("Failed") && w.len() > 6 {
                return Some(w);
            }
            i = j;
        } else {
            i += 1;
        }
    }
    None
}
