// Deterministic PRNG: splitmix64 for seeding, xoshiro256** for streams.
// One `Rng` per simulated run; every choice of the run is drawn from it.

#[derive(Clone)]
pub struct Rng {
    s: [u64; 4],
}

pub fn splitmix64(state: &mut u64) -> u64 {
    *state = state.wrapping_add(0x9E37_79B9_7F4A_7C15);
    let mut z = *state;
    z = (z ^ (z >> 30)).wrapping_mul(0xBF58_476D_1CE4_E5B9);
    z = (z ^ (z >> 27)).wrapping_mul(0x94D0_49BB_1331_11EB);
    z ^ (z >> 31)
}

pub fn fnv1a(data: &[u8]) -> u64 {
    let mut h: u64 = 0xcbf2_9ce4_8422_2325;
    for b in data {
        h ^= u64::from(*b);
        h = h.wrapping_mul(0x0000_0100_0000_01B3);
    }
    h
}

impl Rng {
    pub fn new(seed: u64) -> Rng {
        let mut st = seed;
        let s = [
            splitmix64(&mut st),
            splitmix64(&mut st),
            splitmix64(&mut st),
            splitmix64(&mut st),
        ];
        Rng { s }
    }

    // Per-run seed derivation: VERIF_SEED x property x stream x run index.
    pub fn for_run(verif_seed: u64, label: &str, index: u64) -> Rng {
        let mut st = verif_seed ^ fnv1a(label.as_bytes());
        let a = splitmix64(&mut st);
        let mut st2 = a ^ index.wrapping_mul(0xD6E8_FEB8_6659_FD93);
        Rng::new(splitmix64(&mut st2))
    }

    pub fn next_u64(&mut self) -> u64 {
        let result = self.s[1].wrapping_mul(5).rotate_left(7).wrapping_mul(9);
        let t = self.s[1] << 17;
        self.s[2] ^= self.s[0];
        self.s[3] ^= self.s[1];
        self.s[1] ^= self.s[2];
        self.s[0] ^= self.s[3];
        self.s[2] ^= t;
        self.s[3] = self.s[3].rotate_left(45);
        result
    }

    // Uniform in 0..n (n >= 1).
    pub fn below(&mut self, n: u64) -> u64 {
        if n <= 1 {
            return 0;
        }
        // Multiply-shift; the tiny bias is irrelevant for test generation.
        ((u128::from(self.next_u64()) * u128::from(n)) >> 64) as u64
    }

    pub fn usize_below(&mut self, n: usize) -> usize {
        self.below(n as u64) as usize
    }

    // Uniform in lo..=hi.
    pub fn range(&mut self, lo: i64, hi: i64) -> i64 {
        if hi <= lo {
            return lo;
        }
        lo + self.below((hi - lo + 1) as u64) as i64
    }

    pub fn chance(&mut self, num: u64, den: u64) -> bool {
        self.below(den) < num
    }

    pub fn pick<'a, T>(&mut self, xs: &'a [T]) -> &'a T {
        &xs[self.usize_below(xs.len())]
    }

    pub fn shuffle<T>(&mut self, xs: &mut [T]) {
        for i in (1..xs.len()).rev() {
            let j = self.usize_below(i + 1);
            xs.swap(i, j);
        }
    }

    pub fn bytes16(&mut self) -> [u8; 16] {
        let a = self.next_u64().to_le_bytes();
        let b = self.next_u64().to_le_bytes();
        let mut out = [0u8; 16];
        out[..8].copy_from_slice(&a);
        out[8..].copy_from_slice(&b);
        out
    }
}
