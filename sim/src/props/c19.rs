// C19 -- runs are deterministic: byte-identical transcript across simulated
// worlds (hash keys, address-space layout, cwd, path spelling, environment,
// locale, fd kinds, stdin state, I/O chunking, EINTR).

use crate::engine::{Case, Ctx, Outcome, Property, Violation};
use crate::exec::Status;
use crate::oracle;
use crate::plan::Plan;
use crate::programs;
use crate::rng::Rng;
use crate::world::{World, DIMS};

pub struct C19;

const ALLOWED: &[&str] = &[
    "rand", "heap_pad", "env_pad", "stack", "malloc_tun", "cwd_name", "rel", "file_name", "spelling", "argv0",
    "env_kind", "locale", "rust_backtrace", "stdin", "stdout", "stderr", "merged", "decoys", "clock", "pid",
    "env_bytes", "sig", "umask", "fds", "script_mode", "uid", "rlimit", "malloc_mode", "flock",
];

pub fn pick_program(ctx: &Ctx, rng: &mut Rng) -> programs::Picked {
    match rng.below(10) {
        0..=1 => programs::pick_w1(ctx, rng),
        2 => if rng.chance(1, 2) { programs::pick_w5(rng) } else { programs::pick_w6(rng) },
        3..=4 => programs::pick_w4(ctx, rng),
        5..=6 => crate::w2::pick(rng, &crate::w2::GenOpts::default()),
        _ => crate::w3::pick(rng),
    }
}

impl Property for C19 {
    fn id(&self) -> &'static str {
        "C19"
    }
    fn level(&self) -> &'static str {
        "exploration"
    }
    fn runs(&self, tier: &str) -> u64 {
        if tier == "thorough" { 1_500_000 } else { 40_000 }
    }
    fn rule(&self) -> String {
        "case = (program from W1 corpus | W5 supplementary scripts (function values, many-key objects, object rest, duplicate names) | W6 generated scripts that fail while many similarly spelled variables/properties/functions/parameters are in reach | W4 recombined corpus | W2 call-tree generator | W3 object histories) x (world: random subset of 29 dimensions (hash keys, heap/env/stack layout, malloc tunables, cwd, script location, file name, path spelling, argv[0], environment kind, locale, RUST_BACKTRACE, stdin/stdout/stderr kinds, 2>&1, decoy files, clock, pid, non-Unicode environment entries, inherited signal dispositions/mask, umask, extra open fds, script permissions/mtime, uid, generous resource limits, allocator behaviour: tcache off / memory perturbation, an exclusive advisory lock held on the script by another process) changed against the reference world w0) x (plan of invisible I/O events: write/read chunking, EINTR bursts, short writes, ERANGE on getcwd, wrong size hint; in 5% of the cases instead one read-path fault - getcwd, open or read error - applied identically in the reference world and in the varied world); oracle: transcript (stdout, stderr, exit status) equals the reference world's up to the echoed script path; a case is non-trivial when the world differs from w0 or an invisible event fired; distinct = distinct (program, world, plan) triples".to_string()
    }
    fn assumptions(&self) -> Vec<String> {
        vec![
            "seed reaches the kernel only through the interposed libc symbols (cross-checked: sink content == shim log on every run; strace comparison in selfcheck)".into(),
            "programs whose reference run crashes (exit 101/signal) are skipped: their stderr legitimately depends on RUST_BACKTRACE and they are C02's business".into(),
            "the simulated clock (clock_gettime/gettimeofday/time) and getpid are owned by the shim and varied as world dimensions; environment variables and relative files the program is seen asking for (getenv / open events of the reference run) are set / created in directed follow-up worlds".into(),
            "ASLR is off in every run; layout is varied by deterministic padding (env size, heap pad, stack limit, malloc tunables)".into(),
        ]
    }
    fn required_probes(&self, _tier: &str) -> Vec<String> {
        vec!["world:rand".into(), "world:spelling".into(), "world:cwd_name".into(), "program:failing".into(), "program:stacktrace".into()]
    }

    fn measure(&self, cells: &std::collections::BTreeSet<String>) -> serde_json::Value {
        // single and pairwise (dimension value x dimension value) cells of the world space
        let dims: Vec<usize> = (0..DIMS.len()).filter(|d| ALLOWED.contains(&DIMS[*d])).collect();
        let single_possible: u64 = dims.iter().map(|d| World::dim_cardinality(*d)).sum();
        let mut pair_possible = 0u64;
        for (i, a) in dims.iter().enumerate() {
            for b in dims.iter().skip(i + 1) {
                // 2>&1 forces stderr to follow stdout: (merged, stderr) is one cell per stdout kind
                if (DIMS[*a] == "stderr" && DIMS[*b] == "merged") || (DIMS[*a] == "merged" && DIMS[*b] == "stderr") {
                    pair_possible += 5;
                } else {
                    pair_possible += World::dim_cardinality(*a) * World::dim_cardinality(*b);
                }
            }
        }
        let single = cells.iter().filter(|c| !c.contains('&')).count();
        let pair = cells.iter().filter(|c| c.contains('&')).count();
        serde_json::json!({
            "what": "world-space cells: one per (dimension = non-reference value) and one per pair of such settings occurring together in a run",
            "single_cells_reached": single, "single_cells_possible_upper_bound": single_possible,
            "pairwise_cells_reached": pair, "pairwise_cells_possible_upper_bound": pair_possible,
        })
    }

    fn gen_case(&self, ctx: &Ctx, worker: usize, rng: &mut Rng, _index: u64) -> Case {
        let p = pick_program(ctx, rng);
        let mut world = World::random(rng, ALLOWED);
        let mut reference = ctx.reference(worker, &p.program);
        // "fault pair": the same read-path fault in the reference world and in the varied
        // world -- what the program does about the fault must not depend on the world either
        let mut fault_plan = Plan::new();
        if rng.chance(1, 20) {
            fault_plan.items.push(match rng.below(4) {
                0 | 1 => crate::faults::cwd_fault(rng),
                2 => crate::faults::open_fault(rng),
                _ => crate::faults::read_fault(rng, crate::faults::count_reads(&reference).max(1)),
            });
            reference = std::sync::Arc::new(ctx.run(worker, &p.program, &World::reference(), &fault_plan));
        }
        // directed worlds: whatever environment variable or relative file the
        // program was seen asking for gets a value / gets created
        if rng.chance(1, 2) {
            let mut asked_env = false;
            for e in reference.events.iter().filter(|e| e.kind == 'E') {
                let name = String::from_utf8_lossy(&e.data).to_string();
                if !world.extra_env.iter().any(|(k, _)| *k == name) {
                    // half of the time a directory the simulator owns, so that files looked
                    // for below it can be created in the second stage
                    let v = if rng.chance(1, 2) { "@home" } else { ["1", "0", "", "true", "/nonexistent", "xx_YY.UTF-8", "full", "@home/sub"][rng.usize_below(8)] };
                    world.extra_env.push((name, v.to_string()));
                    asked_env = true;
                }
            }
            // second stage: what does the program look for once those variables are set?
            let probe = if asked_env { Some(ctx.run(worker, &p.program, &world, &fault_plan)) } else { None };
            let home_prefix = format!("{}/", ctx.cfg.scratch.join(format!("w{worker:03}")).join("run").join("home").display());
            let mut asked: Vec<(String, String)> = vec![];
            for run in [Some(reference.as_ref()), probe.as_ref()].into_iter().flatten() {
                for e in run.events.iter().filter(|e| e.kind == 'o' || e.kind == 's') {
                    let path = String::from_utf8_lossy(&e.data).to_string();
                    let rel = if let Some(r) = path.strip_prefix(&home_prefix) {
                        format!("@home/{r}")
                    } else {
                        path.strip_prefix(&format!("{}/", run.cwd.display())).map(str::to_string).unwrap_or(path.clone())
                    };
                    asked.push((rel, path));
                }
            }
            for (rel, _) in asked {
                if !rel.starts_with('/') && !world.extra_files.iter().any(|(k, _)| *k == rel) {
                    let c = ["print(\"decoy\")\n", "", "{\"k\": 1}\n", "\u{0}\u{1}junk", "\n\n\n"][rng.usize_below(5)];
                    world.extra_files.push((rel, c.to_string()));
                }
            }
        }
        let mut plan = if rng.chance(1, 2) && fault_plan.items.is_empty() { oracle::invisible_plan(rng, &reference) } else { Plan::new() };
        plan.items.extend(fault_plan.items);
        Case { label: p.label, program: p.program, aux: p.aux, world, plan }
    }

    fn check(&self, ctx: &Ctx, worker: usize, case: &Case) -> Outcome {
        let mut out = Outcome::default();
        let mut reference = ctx.reference(worker, &case.program);
        if oracle::is_crash(&reference.status) {
            out.skipped = Some("reference-run-crashes".into());
            return out;
        }
        let plan = case.plan.clone();
        if !plan.all_invisible() {
            // fault pair: the reference is the same fault in the reference world
            let faults = Plan { items: plan.items.iter().filter(|i| !i.is_invisible()).cloned().collect() };
            reference = std::sync::Arc::new(ctx.run(worker, &case.program, &World::reference(), &faults));
            out.probes.push("fault-pair".into());
            out.cells.push("fault-pair".into());
            if oracle::is_crash(&reference.status) {
                out.skipped = Some("reference-run-crashes".into());
                return out;
            }
        }
        let r = ctx.run(worker, &case.program, &case.world, &plan);
        out.io_events = r.events.len() as u64;
        out.history_shape = r.history_shape();
        out.fired = oracle::fired_kinds(&plan, &r);
        for d in 0..DIMS.len() {
            if case.world.differs_from_reference(d) {
                out.probes.push(format!("world:{}", DIMS[d]));
                out.cells.push(format!("{}={}", DIMS[d], case.world.dim_value(d)));
            }
        }
        // pairwise cells
        let changed: Vec<usize> = (0..DIMS.len()).filter(|d| case.world.differs_from_reference(*d)).collect();
        for (i, a) in changed.iter().enumerate() {
            for b in changed.iter().skip(i + 1) {
                out.cells.push(format!("{}={}&{}={}", DIMS[*a], case.world.dim_value(*a), DIMS[*b], case.world.dim_value(*b)));
            }
        }
        if reference.status == Status::Exit(103) {
            out.probes.push("program:failing".into());
            if reference.stderr.windows(11).any(|w| w == b"Stacktrace:") {
                out.probes.push("program:stacktrace".into());
            }
        }
        out.nontrivial = !changed.is_empty() || !out.fired.is_empty();

        let exp_err = oracle::expected_stderr(&reference, &r.argv1, &r.abs_script);
        let cmp_stdout = case.world.stdout != 3 && case.world.stdout != 9;
        let cmp_stderr = (case.world.stderr != 3 && case.world.stderr != 9) || case.world.merged;
        let mut diffs = vec![];
        if r.status != reference.status {
            diffs.push(format!("exit status {} != {}", r.status.render(), reference.status.render()));
        }
        if cmp_stdout && r.stdout != reference.stdout {
            diffs.push("stdout differs".to_string());
        }
        if cmp_stderr && r.stderr != exp_err {
            diffs.push("stderr differs".to_string());
        }
        if case.world.merged && diffs.is_empty() {
            let mut m = reference.stdout.clone();
            m.extend_from_slice(&exp_err);
            if r.merged() != m {
                diffs.push("merged 2>&1 stream is not stdout followed by stderr".to_string());
            }
        }
        if case.world.merged && !r.seam_ok {
            diffs.push("the shared 2>&1 sink does not hold stdout followed by stderr".to_string());
        }
        if !diffs.is_empty() {
            out.violation = Some(Violation {
                clause: "same script, different world => byte-identical stdout, stderr (up to the echoed path) and exit status".into(),
                signature: format!("transcript-differs:{}", diffs.join("+")),
                detail: format!("{}; world={} plan=[{}]", diffs.join("; "), case.world.to_json(), plan.encode_items()),
                expected: format!("status={} stdout={:?} stderr={:?}", reference.status.render(), oracle::show(&reference.stdout), oracle::show(&exp_err)),
                observed: format!("status={} stdout={:?} stderr={:?}", r.status.render(), oracle::show(&r.stdout), oracle::show(&r.stderr)),
            });
            return out;
        }
        // W3 programs carry a model: print is a canonical function of the value,
        // whatever the aliasing, construction order or world
        if case.label.starts_with("W3") && cmp_stdout && plan.all_invisible() {
            let w3 = crate::w3::build(&case.aux);
            if w3.text == case.program {
                out.probes.push("w3-model-compared".into());
                if r.stdout != w3.stdout {
                    out.violation = Some(Violation {
                        clause: "print(v) is a canonical rendering that depends only on the structure of v (aliasing and construction order are invisible)".into(),
                        signature: "rendering-not-canonical".into(),
                        detail: format!("W3 transcript differs from the rendering model; world={}", case.world.to_json()),
                        expected: oracle::show(&w3.stdout),
                        observed: oracle::show(&r.stdout),
                    });
                    return out;
                }
            }
        }
        // same world twice => identical event log (sampled)
        if case.key() % 16 == 0 {
            let r2 = ctx.run(worker, &case.program, &case.world, &plan);
            out.probes.push("repeat-run".into());
            if r2.digest() != r.digest() {
                out.violation = Some(Violation {
                    clause: "running the same script twice in the identical world gives identical I/O history".into(),
                    signature: "repeat-run-differs".into(),
                    detail: format!("two executions with identical inputs diverged; world={} plan=[{}]", case.world.to_json(), plan.encode_items()),
                    expected: r.events.iter().map(|e| e.render()).collect::<Vec<_>>().join("\n"),
                    observed: r2.events.iter().map(|e| e.render()).collect::<Vec<_>>().join("\n"),
                });
            }
        }
        out
    }

    fn shrink(&self, _ctx: &Ctx, case: &Case) -> Vec<Case> {
        if case.label.starts_with("W2") {
            return crate::w2::shrink_cases(case);
        }
        crate::shrink::line_candidates(&case.program)
            .into_iter()
            .map(|p| {
                let mut c = case.clone();
                c.program = p;
                c
            })
            .collect()
    }
}
