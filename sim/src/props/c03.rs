// C03 (read-path slice) -- whole-file-or-nothing: the delivery schedule of the
// script is invisible; any failure to obtain a complete valid UTF-8 text is one
// diagnostic, exit 103, nothing executed; reading completes before any output.

use crate::engine::{Case, Ctx, Outcome, Property, Violation};
use crate::exec::{RunResult, Status};
use crate::faults;
use crate::oracle;
use crate::plan::{Act, Item, Plan};
use crate::programs;
use crate::rng::Rng;
use crate::world::World;

pub struct C03;

// thorough tier: every byte offset of every corpus script, truncated there /
// corrupted there
pub const ENUM_P: u64 = 352;
pub const ENUM_E: u64 = 2 * 1536;

// ... then, for ENUM2_P small generated programs, every inter-token space after the first
// print statement is corrupted (illegal character; `,` where that is a syntax error):
// a runnable prefix exists, and none of it may run
pub const ENUM2_P: u64 = 1500;
pub const ENUM2_E: u64 = 240;

fn prefix_corruptions(w2: &crate::w2::W2Prog) -> Vec<Item> {
    const REPL: &[&[u8]] = &[b"@", b"~", b"^", b"?", b"\x01", b"`", "é".as_bytes(), "✓".as_bytes(), b"\x0b"];
    let mut v = vec![];
    for (i, sp) in w2.spaces.iter().enumerate().filter(|(_, s)| s.after_first_print) {
        if sp.stmt_level {
            v.push(Item::Flip { off: sp.off, bytes: b",".to_vec() });
        }
        v.push(Item::Flip { off: sp.off, bytes: REPL[i % REPL.len()].to_vec() });
    }
    v
}

const WORLD_DIMS: &[&str] = &["rand", "cwd_name", "rel", "file_name", "spelling", "stdout", "merged", "flock", "script_mode", "env_kind"];

fn pick_program(ctx: &Ctx, rng: &mut Rng) -> programs::Picked {
    match rng.below(10) {
        0..=4 => programs::pick_w1_printing(ctx, rng),
        _ => crate::w2::pick(rng, &crate::w2::GenOpts::default()),
    }
}

fn viol(clause: &str, sig: &str, detail: String, expected: String, r: &RunResult) -> Violation {
    Violation {
        clause: clause.to_string(),
        signature: sig.to_string(),
        detail,
        expected,
        observed: format!("status={} stdout={:?} stderr={:?}", r.status.render(), oracle::show(&r.stdout), oracle::show(&r.stderr)),
    }
}

// `<argv1>:<L>:<C>: <text>` -> (L, C)
pub fn parse_located(line: &[u8], argv1: &[u8]) -> Option<(u64, u64)> {
    let mut pre = argv1.to_vec();
    pre.push(b':');
    let rest = line.strip_prefix(pre.as_slice())?;
    let s = String::from_utf8_lossy(rest).to_string();
    let mut it = s.splitn(3, ':');
    let l: u64 = it.next()?.parse().ok()?;
    let c: u64 = it.next()?.parse().ok()?;
    let tail = it.next()?;
    if !tail.starts_with(' ') || tail.trim().is_empty() {
        return None;
    }
    Some((l, c))
}

impl Property for C03 {
    fn id(&self) -> &'static str {
        "C03"
    }
    fn level(&self) -> &'static str {
        "fault_enumeration"
    }
    fn runs(&self, tier: &str) -> u64 {
        if tier == "thorough" { 3_000_000 } else { 40_000 }
    }
    fn rule(&self) -> String {
        "thorough tier additionally enumerates, for every corpus script up to 1536 bytes, truncation at every byte offset and an invalid UTF-8 byte at every byte offset, and, for 1500 small generated programs, every corruption of an inter-token space after the first print statement into an illegal character or a stray comma (up to 240 per program); sampled cases: case = (printing program from W1 | W2) x (delivery mode: chunked reads at PRNG boundaries incl. inside multi-byte characters, wrong size hint, EINTR bursts | read error at the n-th read | open error (7 injected errnos; or refused by the kernel itself: trailing slash, directory, symlink loop, missing file, path longer than PATH_MAX) | getcwd error | stored byte replaced by an invalid UTF-8 byte at a PRNG offset | inter-token space replaced by a character no token starts with, or - outside all brackets - by a ',' that makes a syntax error (W2 only) | truncated delivery at a PRNG offset); oracle: invisible deliveries => reference transcript; read/open/cwd/encoding faults => empty stdout, no fd-1 write attempted, exit 103, exactly one stderr line starting with argv[1]; lexical corruption => same plus located form with line <= lines+1; truncation => exit in {0,103}, stderr empty iff exit 0, located line bound; on every run all script reads and the close precede the first stdout write; non-trivial = fault/delivery event fired; distinct = distinct (program, world, plan)".to_string()
    }
    fn assumptions(&self) -> Vec<String> {
        vec![
            "slice: how the file arrives; what the lexer/parser do with a given complete text is a pure function and not searched".into(),
            "the script is identified by device/inode, so any spelling of the path is recognised".into(),
        ]
    }
    fn required_probes(&self, _tier: &str) -> Vec<String> {
        vec!["mode:invisible".into(), "mode:read-error".into(), "mode:open-error".into(), "mode:cwd-error".into(), "mode:flip-utf8".into(), "mode:flip-illegal".into(), "mode:flip-syntax".into(), "mode:eof-early".into(), "read-split-codepoint".into()]
    }

    fn gen_case(&self, ctx: &Ctx, worker: usize, rng: &mut Rng, index: u64) -> Case {
        if ctx.tier == "thorough" && index < ENUM_P * ENUM_E && !ctx.corpus.is_empty() {
            let prog_i = (index % ENUM_P) as usize % ctx.corpus.len();
            let slot = index / ENUM_P;
            let sc = &ctx.corpus[prog_i];
            let off = slot / 2;
            let mut plan = Plan::new();
            if slot % 2 == 0 {
                plan.items.push(Item::Eof { k: off });
            } else {
                plan.items.push(Item::Flip { off, bytes: vec![0xff] });
            }
            let aux = serde_json::json!({"enum": {"program": prog_i, "slot": slot}});
            return Case { label: format!("W1:{}", sc.name), program: sc.src.clone(), aux, world: World::reference(), plan };
        }
        let base = ENUM_P * ENUM_E;
        if ctx.tier == "thorough" && index >= base && index < base + ENUM2_P * ENUM2_E {
            let k = index - base;
            let prog_i = k % ENUM2_P;
            let slot = (k / ENUM2_P) as usize;
            let mut prng = Rng::for_run(ctx.seed, "C03-enum-program", prog_i);
            let small = crate::w2::GenOpts { max_calls: 12, max_depth: 3, top_stmts: 4, interp: true };
            let p = crate::w2::pick(&mut prng, &small);
            let w2p = crate::w2::build(&p.aux);
            let cands = prefix_corruptions(&w2p);
            let mut plan = Plan::new();
            if slot < cands.len() {
                plan.items.push(cands[slot].clone());
            }
            let mut aux = p.aux.clone();
            aux["enum2"] = serde_json::json!({"program": prog_i, "slot": slot, "candidates": cands.len()});
            return Case { label: p.label, program: p.program, aux, world: World::reference(), plan };
        }
        let mut p = pick_program(ctx, rng);
        let mode = rng.below(16);
        if mode == 9 || mode == 10 {
            // lexical corruption needs generator knowledge of inter-token spaces
            p = crate::w2::pick(rng, &crate::w2::GenOpts::default());
        }
        let reference = ctx.reference(worker, &p.program);
        let len = p.program.len() as u64;
        let nr = faults::count_reads(&reference);
        let world = if rng.chance(1, 3) { World::random(rng, WORLD_DIMS) } else { World::reference() };
        let mut plan = Plan::new();
        let chunk = Item::RChunk { seed: rng.next_u64() >> 1, max: 1 + rng.below(24) };
        match mode {
            0..=2 => {
                plan.items.push(chunk);
                if rng.chance(1, 2) {
                    let n = rng.below(len / 4 + 2);
                    for b in 0..(1 + rng.below(3)) {
                        plan.items.push(Item::Read { n: n + b, act: Act::Eintr });
                    }
                }
                if rng.chance(1, 2) {
                    let h = match rng.below(4) {
                        0 => 0,
                        1 => len / 2,
                        2 => len + 1 + rng.below(4096),
                        _ => len.saturating_sub(1),
                    };
                    plan.items.push(Item::Hint { size: h });
                }
                if rng.chance(1, 4) {
                    let kind = 1 + rng.below(3) as u8;
                    plan.items.push(Item::FType { kind });
                    if kind == 1 && rng.chance(1, 2) {
                        plan.items.push(if rng.chance(1, 2) { Item::NbFifo { mode: 1, n: 0 } } else { Item::NbFifo { mode: 2, n: rng.below(4) } });
                    }
                }
                if rng.chance(1, 4) {
                    plan.items.push(Item::Open { n: 0, act: Act::Eintr });
                }
            }
            3..=5 => {
                // read error at the n-th read; chunking makes n meaningful
                let with_chunk = rng.chance(3, 4);
                let nreads = if with_chunk { len / 6 + 2 } else { nr.max(1) };
                if with_chunk {
                    plan.items.push(chunk);
                }
                plan.items.push(faults::read_fault(rng, nreads));
            }
            6 => {
                if rng.chance(1, 2) {
                    plan.items.push(faults::open_fault(rng));
                } else {
                    // the kernel itself refuses: trailing slash, directory, symlink loop, missing, too long
                    return Case { label: p.label, program: p.program, aux: p.aux, world: World { spelling: 7 + rng.below(5) as u8, ..World::reference() }, plan };
                }
            }
            7 => plan.items.push(faults::cwd_fault(rng)),
            8 | 15 => {
                let bad = [0xffu8, 0xc0, 0xf8, 0xfe][rng.usize_below(4)];
                plan.items.push(Item::Flip { off: rng.below(len.max(1)), bytes: vec![bad] });
                if rng.chance(1, 2) {
                    plan.items.push(chunk);
                }
            }
            9 | 10 => {
                let w2p = crate::w2::build(&p.aux);
                // only spaces after the first print statement: a runnable prefix exists
                let cands: Vec<&crate::w2::Space> = w2p.spaces.iter().filter(|s| s.after_first_print).collect();
                if let Some(sp) = if cands.is_empty() { None } else { Some(cands[rng.usize_below(cands.len())]) } {
                    let repl: &[&[u8]] = &[b"@", b"~", b"^", b"?", b"\x01", b"`", "é".as_bytes(), "✓".as_bytes(), b"\x0b"];
                    // a stray `,` outside all brackets lexes fine and is a syntax error instead
                    let bytes = if sp.stmt_level && rng.chance(1, 3) { b",".to_vec() } else { repl[rng.usize_below(repl.len())].to_vec() };
                    plan.items.push(Item::Flip { off: sp.off, bytes });
                    if rng.chance(1, 2) {
                        plan.items.push(chunk);
                    }
                }
            }
            _ => {
                plan.items.push(Item::Eof { k: rng.below(len + 1) });
                if rng.chance(1, 2) {
                    plan.items.push(chunk);
                }
            }
        }
        Case { label: p.label, program: p.program, aux: p.aux, world, plan }
    }

    fn check(&self, ctx: &Ctx, worker: usize, case: &Case) -> Outcome {
        let mut out = Outcome::default();
        if let Some(e) = case.aux.get("enum") {
            let slot = e.get("slot").and_then(|v| v.as_u64()).unwrap_or(0);
            let len = case.program.len() as u64;
            if slot == 0 {
                out.probes.push(if len * 2 <= ENUM_E { "enum:program-fully-enumerated".into() } else { "enum:program-partly-enumerated".into() });
            }
            if slot / 2 >= len {
                out.skipped = Some("enum-slot-beyond-run".into());
                return out;
            }
            out.probes.push("enum:case".into());
        }
        if let Some(e) = case.aux.get("enum2") {
            let slot = e.get("slot").and_then(|v| v.as_u64()).unwrap_or(0);
            let cands = e.get("candidates").and_then(|v| v.as_u64()).unwrap_or(0);
            if slot == 0 {
                out.probes.push(if cands <= ENUM2_E { "enum:corruptions-fully-enumerated".into() } else { "enum:corruptions-partly-enumerated".into() });
            }
            if slot >= cands {
                out.skipped = Some("enum-slot-beyond-run".into());
                return out;
            }
            out.probes.push("enum:corruption-case".into());
        }
        let reference = ctx.reference(worker, &case.program);
        if oracle::is_crash(&reference.status) {
            out.skipped = Some("reference-run-crashes".into());
            return out;
        }
        let r = ctx.run(worker, &case.program, &case.world, &case.plan);
        out.io_events = r.events.len() as u64;
        out.history_shape = r.history_shape();
        out.fired = oracle::fired_kinds(&case.plan, &r);
        let len = case.program.len() as u64;

        // which class of thing actually happened
        let rd_err = r.events.iter().any(|e| e.kind == 'R' && e.ret < 0 && e.errno != 4);
        let real_refusal = (7..=11).contains(&case.world.spelling);
        let op_err = real_refusal || r.events.iter().any(|e| e.kind == 'O' && e.ret < 0 && e.errno != 4);
        if real_refusal {
            out.probes.push(format!("real-refusal:{}", case.world.spelling));
        }
        let cw_err = r.events.iter().any(|e| e.kind == 'G' && e.ret < 0 && e.errno != 34);
        let read_any = r.events.iter().any(|e| e.kind == 'R');
        let flip = case.plan.items.iter().find_map(|i| if let Item::Flip { off, bytes } = i { Some((*off, bytes.clone())) } else { None });
        let eof = case.plan.items.iter().find_map(|i| if let Item::Eof { k } = i { Some(*k) } else { None });
        let flip_eff = flip.as_ref().map(|(o, _)| *o < len && read_any && !rd_err).unwrap_or(false);
        let flip_utf8 = flip_eff && flip.as_ref().map(|(_, b)| b.len() == 1 && b[0] >= 0xc0 && std::str::from_utf8(b).is_err()).unwrap_or(false);
        let flip_illegal = flip_eff && !flip_utf8;
        let eof_eff = eof.map(|k| k < len && read_any && !rd_err).unwrap_or(false);

        // short reads that split a code point
        {
            let mut pos: usize = 0;
            let text = &case.program;
            for e in r.events.iter().filter(|e| e.kind == 'R' && e.ret > 0) {
                pos += e.ret as usize;
                if pos < text.len() && (text[pos] & 0xc0) == 0x80 && flip.is_none() {
                    out.probes.push("read-split-codepoint".into());
                    break;
                }
            }
        }

        // I1 on every run
        if let Some(d) = oracle::check_read_before_output(&r) {
            out.violation = Some(viol(
                "reading and parsing complete before the first statement runs",
                "read-after-output",
                d,
                "all script reads before the first stdout write".into(),
                &r,
            ));
            return out;
        }

        let fd1_attempt = r.events.iter().any(|e| e.kind == 'W' && e.fd == 1);
        let one_line = r.stderr.iter().filter(|b| **b == b'\n').count() == 1 && r.stderr.ends_with(b"\n");
        let mut pre = r.argv1.clone();
        pre.push(b':');
        let starts = r.stderr.starts_with(&pre) && r.stderr.len() > pre.len() + 1;
        let lines_in_file = case.program.iter().filter(|b| **b == b'\n').count() as u64 + 1;

        if rd_err || op_err || cw_err || flip_utf8 {
            let mode = if rd_err { "read-error" } else if op_err { "open-error" } else if cw_err { "cwd-error" } else { "flip-utf8" };
            out.probes.push(format!("mode:{mode}"));
            out.cells.push(format!("mode:{mode}"));
            out.nontrivial = true;
            let mut bad = vec![];
            if !r.stdout.is_empty() {
                bad.push("stdout not empty (part of the script ran)");
            }
            if fd1_attempt {
                bad.push("a write to fd 1 was attempted");
            }
            if r.status != Status::Exit(103) {
                bad.push("exit status is not 103");
            }
            if !one_line {
                bad.push("stderr is not exactly one line");
            }
            if !starts {
                bad.push("stderr does not start with '<argv1>:' followed by text");
            }
            if !bad.is_empty() {
                out.violation = Some(viol(
                    "a failure to obtain the complete valid script is exactly one diagnostic, exit 103, empty stdout, nothing executed",
                    &format!("unclean-rejection:{mode}"),
                    format!("{}; plan=[{}]", bad.join("; "), case.plan.encode_items()),
                    "stdout empty, no fd-1 write, exit 103, one stderr line '<argv1>: ...'".into(),
                    &r,
                ));
            }
            return out;
        }
        if flip_illegal {
            let syntax = flip.as_ref().map(|(_, b)| b.as_slice() == b",").unwrap_or(false);
            let m = if syntax { "mode:flip-syntax" } else { "mode:flip-illegal" };
            out.probes.push(m.into());
            out.cells.push(m.into());
            out.nontrivial = true;
            let mut bad = vec![];
            if !r.stdout.is_empty() || fd1_attempt {
                bad.push("statements before the lexical/syntax error were executed".to_string());
            }
            if r.status != Status::Exit(103) {
                bad.push("exit status is not 103".to_string());
            }
            if !one_line {
                bad.push("stderr is not exactly one line".to_string());
            }
            match parse_located(r.stderr.split(|b| *b == b'\n').next().unwrap_or(b""), &r.argv1) {
                Some((l, _)) => {
                    if l > lines_in_file + 1 || l < 1 {
                        bad.push(format!("reported line {l} outside 1..={}", lines_in_file + 1));
                    }
                }
                None => bad.push("stderr line is not of the form '<argv1>:<line>:<col>: <message>'".to_string()),
            }
            if !bad.is_empty() {
                out.violation = Some(viol(
                    "a lexical or syntax error anywhere prevents execution of every statement and is reported as one located diagnostic",
                    "unclean-lexical-rejection",
                    format!("{}; plan=[{}]", bad.join("; "), case.plan.encode_items()),
                    "stdout empty, exit 103, one stderr line '<argv1>:<L>:<C>: ...'".into(),
                    &r,
                ));
            }
            return out;
        }
        if eof_eff {
            out.probes.push("mode:eof-early".into());
            out.cells.push("mode:eof-early".into());
            out.nontrivial = true;
            let mut bad = vec![];
            match r.status {
                Status::Exit(0) => {
                    if !r.stderr.is_empty() {
                        bad.push("exit 0 with non-empty stderr".to_string());
                    }
                }
                Status::Exit(103) => {
                    if r.stderr.is_empty() {
                        bad.push("exit 103 with empty stderr".to_string());
                    }
                    if !starts {
                        bad.push("stderr does not start with '<argv1>:'".to_string());
                    }
                }
                _ => bad.push(format!("status {}", r.status.render())),
            }
            let delivered_lines = eof.map(|k| case.program[..(k as usize).min(case.program.len())].iter().filter(|b| **b == b'\n').count() as u64 + 1).unwrap_or(lines_in_file);
            if let Some((l, _)) = parse_located(r.stderr.split(|b| *b == b'\n').next().unwrap_or(b""), &r.argv1) {
                if l > delivered_lines + 1 {
                    bad.push(format!("reported line {l} exceeds delivered lines {delivered_lines} + 1"));
                }
            }
            if !bad.is_empty() {
                out.violation = Some(viol(
                    "every input is either run or rejected with a diagnostic (exit 0 or 103; never panic/hang; line <= lines+1)",
                    "truncation-mishandled",
                    format!("{}; plan=[{}]", bad.join("; "), case.plan.encode_items()),
                    "exit 0 with empty stderr, or exit 103 with a diagnostic".into(),
                    &r,
                ));
            }
            return out;
        }

        // invisible delivery: transcript must equal the reference world's
        out.probes.push("mode:invisible".into());
        out.cells.push("mode:invisible".into());
        out.nontrivial = !out.fired.is_empty();
        for f in &out.fired {
            out.cells.push(format!("delivery:{f}"));
        }
        let exp_err = oracle::expected_stderr(&reference, &r.argv1, &r.abs_script);
        let cmp_stdout = case.world.stdout != 3 && case.world.stdout != 9;
        let mut diffs = vec![];
        if r.status != reference.status {
            diffs.push("exit status differs");
        }
        if cmp_stdout && r.stdout != reference.stdout {
            diffs.push("stdout differs");
        }
        if r.stderr != exp_err {
            diffs.push("stderr differs");
        }
        if !diffs.is_empty() {
            out.violation = Some(Violation {
                clause: "the delivery schedule of the script (chunking, EINTR, size hint) is invisible".into(),
                signature: "delivery-visible".into(),
                detail: format!("{}; plan=[{}] world={}", diffs.join("; "), case.plan.encode_items(), case.world.to_json()),
                expected: format!("status={} stdout={:?} stderr={:?}", reference.status.render(), oracle::show(&reference.stdout), oracle::show(&exp_err)),
                observed: format!("status={} stdout={:?} stderr={:?}", r.status.render(), oracle::show(&r.stdout), oracle::show(&r.stderr)),
            });
        }
        out
    }

    fn shrink(&self, _ctx: &Ctx, case: &Case) -> Vec<Case> {
        if case.label.starts_with("W2") {
            return crate::w2::shrink_cases(case);
        }
        crate::shrink::line_candidates(&case.program)
            .into_iter()
            .map(|p| {
                let mut c = case.clone();
                c.program = p;
                c
            })
            .collect()
    }
}
