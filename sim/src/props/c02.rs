// C02 (I/O-fault slice) -- the process ends only by exit 0 or exit 103, never
// by a panic (101), a signal or a hang, under any event the world can produce
// at the six touch points (argv, getcwd, script read, stdout, stderr, exit).

use crate::engine::{Case, Ctx, Outcome, Property, Violation};
use crate::exec::Status;
use crate::faults;
use crate::oracle;
use crate::plan::{Item, Plan};
use crate::programs;
use crate::rng::Rng;
use crate::world::World;

pub struct C02;

// thorough tier: every single write fault (fd 1 / fd 2, one-shot / persistent)
// at every write index < 32 of every corpus script
pub const ENUM_P: u64 = 352;
pub const ENUM_E: u64 = 4 * 32;

const WORLD_DIMS: &[&str] = &["rand", "stdout", "stderr", "merged", "stdin", "cwd_name", "spelling", "rust_backtrace", "stack", "env_bytes", "sig", "fds", "locale", "env_kind", "uid", "rlimit", "flock"];

fn pick_program(ctx: &Ctx, rng: &mut Rng) -> programs::Picked {
    match rng.below(10) {
        0..=2 => programs::pick_w1(ctx, rng),
        3 => if rng.chance(1, 2) { programs::pick_w5(rng) } else { programs::pick_w6(rng) },
        4..=5 => programs::pick_w4(ctx, rng),
        6..=8 => crate::w2::pick(rng, &crate::w2::GenOpts::default()),
        _ => crate::w3::pick(rng),
    }
}

impl Property for C02 {
    fn id(&self) -> &'static str {
        "C02"
    }
    fn level(&self) -> &'static str {
        "fault_enumeration"
    }
    fn runs(&self, tier: &str) -> u64 {
        if tier == "thorough" { 1_200_000 } else { 40_000 }
    }
    fn rule(&self) -> String {
        "thorough tier additionally enumerates every single write fault (fd 1 and fd 2, one-shot ENOSPC and persistent EIO/EPIPE) at every write index < 32 of every corpus script; sampled cases: case = (program from W1|W4|W5|W6|W2|W3) x (world subset: hash keys, sink kinds incl. terminals, 2>&1, stdin, cwd, spelling, RUST_BACKTRACE, stack limit, locale, environment incl. entries that are not valid Unicode, inherited signal state, extra open fds, uid; 3% non-UTF-8 argv[1]) x (fault plan: 1 fault in 85% of cases, 2-4 otherwise, drawn from write errors/torn writes on fd 1 and fd 2 at a write index of the fault-free run (6 errnos, one-shot or persistent), read errors, open errors, getcwd errors, truncated delivery, stored-byte corruption (invalid UTF-8, illegal character, corrupted call name / operator / stray comma in W2 programs so that located diagnostics with stack traces are produced), plus chunking/EINTR); oracle: exit status in {0,103}, no signal, no hang; non-trivial = at least one fault fired or argv[1] not UTF-8; distinct = distinct (program, world, plan)".to_string()
    }
    fn assumptions(&self) -> Vec<String> {
        vec![
            "slice: crashes caused by I/O events only; operand/aliasing/Unicode crashes named in the property are pure functions of the script and are not searched".into(),
            "allocation failure and stack exhaustion are excluded by the property statement and not injected".into(),
            "libc-level seam (see C19 assumptions)".into(),
        ]
    }
    fn required_probes(&self, _tier: &str) -> Vec<String> {
        vec!["touch:stdout-error".into(), "touch:stderr-error".into(), "touch:read-error".into(), "touch:open-error".into(), "touch:cwd-error".into(), "touch:argv-bytes".into(), "touch:real-epipe".into(), "touch:real-enospc".into()]
    }

    fn gen_case(&self, ctx: &Ctx, worker: usize, rng: &mut Rng, index: u64) -> Case {
        if ctx.tier == "thorough" && index < ENUM_P * ENUM_E && !ctx.corpus.is_empty() {
            let prog_i = (index % ENUM_P) as usize % ctx.corpus.len();
            let slot = index / ENUM_P;
            let sc = &ctx.corpus[prog_i];
            let n = slot / 4;
            let (fd, act) = match slot % 4 {
                0 => (1, crate::plan::Act::Err(crate::plan::ENOSPC)),
                1 => (1, crate::plan::Act::PErr(crate::plan::EIO)),
                2 => (2, crate::plan::Act::Err(crate::plan::ENOSPC)),
                _ => (2, crate::plan::Act::PErr(crate::plan::EPIPE)),
            };
            let mut plan = Plan::new();
            plan.items.push(Item::Write { fd, n, act });
            let aux = serde_json::json!({"enum": {"program": prog_i, "slot": slot}});
            return Case { label: format!("W1:{}", sc.name), program: sc.src.clone(), aux, world: World::reference(), plan };
        }
        let p = pick_program(ctx, rng);
        let reference = ctx.reference(worker, &p.program);
        let mut world = if rng.chance(1, 2) { World::random(rng, WORLD_DIMS) } else { World::reference() };
        let mut plan = Plan::new();
        if rng.chance(3, 100) {
            world.file_name = 4;
        }
        if rng.chance(2, 100) {
            world.spelling = 7 + rng.below(5) as u8;
        }
        if rng.chance(3, 100) {
            // real kernel faults: a pipe whose reader has gone (EPIPE), a full device (ENOSPC)
            let k = 6 + rng.below(2) as u8;
            match rng.below(3) {
                0 => world.stdout = k,
                1 => world.stderr = k,
                _ => {
                    world.stdout = k;
                    world.stderr = 6 + rng.below(2) as u8;
                }
            }
            world.merged = false;
        }
        let w1 = faults::count_writes(&reference, 1);
        let w2 = faults::count_writes(&reference, 2);
        let nr = faults::count_reads(&reference);
        let len = faults::script_len(&reference);
        let nfaults = if rng.chance(85, 100) { 1 } else { 2 + rng.below(3) };
        for _ in 0..nfaults {
            let it = match rng.below(20) {
                0..=6 => faults::write_fault(rng, 1, w1.max(1)),
                // stderr faults need a diagnostic: w2 is 0 for succeeding programs,
                // so combine with a stdout fault below
                7..=10 => faults::write_fault(rng, 2, w2.max(12)),
                11..=12 => faults::read_fault(rng, nr.max(1)),
                13 => faults::open_fault(rng),
                14 => faults::cwd_fault(rng),
                15 => Item::Eof { k: rng.below(len + 1) },
                16 => Item::Flip { off: rng.below(len.max(1)), bytes: vec![0xff] },
                17 => Item::Flip { off: rng.below(len.max(1)), bytes: vec![b'@'] },
                _ => faults::write_fault(rng, 1, w1.max(1)),
            };
            // a stderr fault on a succeeding program never fires; force a failure
            if let Item::Write { fd: 2, .. } = it {
                if w2 == 0 && w1 > 0 {
                    plan.items.push(Item::Write { fd: 1, n: rng.below(w1), act: crate::plan::Act::PErr(crate::plan::ENOSPC) });
                }
            }
            plan.items.push(it);
        }
        // the script cannot be loaded AND the diagnostic about that cannot be written
        if plan.items.iter().any(|i| matches!(i, Item::Read { .. } | Item::Open { .. } | Item::Cwd { .. }) || matches!(i, Item::Flip { bytes, .. } if bytes == &vec![0xffu8])) && rng.chance(1, 3) {
            let e = *rng.pick(faults::WRITE_ERRNOS);
            plan.items.push(Item::Write { fd: 2, n: 0, act: if rng.chance(1, 2) { crate::plan::Act::PErr(e) } else { crate::plan::Act::Err(e) } });
        }
        if p.label.starts_with("W2") && rng.chance(1, 5) {
            // a located runtime/syntax diagnostic (with stack trace, after multi-byte
            // text) produced by storage corruption, so that the diagnostic path itself
            // runs under every world and sink fault
            let w2p = crate::w2::build(&p.aux);
            let it = if rng.chance(1, 3) && !w2p.spaces.is_empty() {
                // a stray bracket / comma / colon / dot between two tokens: mostly syntax errors
                // that quote the following token -- biased towards long (multi-byte) tokens
                let sp = if rng.chance(1, 3) {
                    w2p.spaces.iter().max_by_key(|s| (s.next_len, s.off)).unwrap()
                } else {
                    &w2p.spaces[rng.usize_below(w2p.spaces.len())]
                };
                let punct = b")(][}{,:.";
                Some(Item::Flip { off: sp.off, bytes: vec![punct[rng.usize_below(punct.len())]] })
            } else {
                crate::props::c17::flip_item(rng, &w2p)
            };
            if let Some(it) = it {
                plan.items.retain(|i| !matches!(i, Item::Flip { .. } | Item::Eof { .. }));
                plan.items.push(it);
            }
        }
        if rng.chance(1, 2) {
            plan.items.extend(faults::spread_items(rng));
        }
        dedup(&mut plan);
        Case { label: p.label, program: p.program, aux: p.aux, world, plan }
    }

    fn check(&self, ctx: &Ctx, worker: usize, case: &Case) -> Outcome {
        let mut out = Outcome::default();
        if let Some(e) = case.aux.get("enum") {
            let slot = e.get("slot").and_then(|v| v.as_u64()).unwrap_or(0);
            let reference = ctx.reference(worker, &case.program);
            let fd = if slot % 4 < 2 { 1 } else { 2 };
            if slot / 4 >= faults::count_writes(&reference, fd) {
                out.skipped = Some("enum-slot-beyond-run".into());
                return out;
            }
            out.probes.push("enum:case".into());
        }
        let r = ctx.run(worker, &case.program, &case.world, &case.plan);
        out.io_events = r.events.len() as u64;
        out.history_shape = r.history_shape();
        out.fired = oracle::fired_kinds(&case.plan, &r);
        let fd1_err = r.events.iter().any(|e| e.kind == 'W' && e.fd == 1 && ((e.ret < 0 && e.errno != 4) || e.act == "zero"));
        let fd2_err = r.events.iter().any(|e| e.kind == 'W' && e.fd == 2 && ((e.ret < 0 && e.errno != 4) || e.act == "zero"));
        let rd_err = r.events.iter().any(|e| e.kind == 'R' && e.ret < 0 && e.errno != 4);
        let op_err = r.events.iter().any(|e| e.kind == 'O' && e.ret < 0 && e.errno != 4);
        let cw_err = r.events.iter().any(|e| e.kind == 'G' && e.ret < 0 && e.errno != 34);
        if fd1_err {
            out.probes.push("touch:stdout-error".into());
        }
        if fd2_err {
            out.probes.push("touch:stderr-error".into());
        }
        if rd_err {
            out.probes.push("touch:read-error".into());
        }
        if op_err {
            out.probes.push("touch:open-error".into());
        }
        if cw_err {
            out.probes.push("touch:cwd-error".into());
        }
        if case.world.file_name == 4 {
            out.probes.push("touch:argv-bytes".into());
        }
        if r.events.iter().any(|e| e.kind == 'W' && e.ret < 0 && e.errno == 32 && e.act == "-") {
            out.probes.push("touch:real-epipe".into());
        }
        if r.events.iter().any(|e| e.kind == 'W' && e.ret < 0 && e.errno == 28 && e.act == "-") {
            out.probes.push("touch:real-enospc".into());
        }
        if fd1_err && fd2_err {
            out.probes.push("both-sinks-failing".into());
        }
        // position bucket of the first failing stdout write
        if let Some(e) = r.events.iter().find(|e| e.kind == 'W' && e.fd == 1 && ((e.ret < 0 && e.errno != 4) || e.act == "zero")) {
            let total = r.events.iter().filter(|x| x.kind == 'W' && x.fd == 1).count();
            let idx = r.events.iter().filter(|x| x.kind == 'W' && x.fd == 1 && x.seq < e.seq).count();
            let b = if idx == 0 { "first" } else if idx + 1 >= total { "last" } else { "middle" };
            out.cells.push(format!("stdout-fault@{b}:errno{}", e.errno));
        }
        for f in &out.fired {
            out.cells.push(format!("fired:{f}"));
        }
        out.nontrivial = !out.fired.is_empty() || case.world.file_name == 4 || case.world != World::reference();
        if !matches!(r.status, Status::Exit(0) | Status::Exit(103)) {
            let cause = if case.world.file_name == 4 {
                "argv1-not-utf8"
            } else if fd2_err {
                "stderr-write-error"
            } else if fd1_err {
                "stdout-write-error"
            } else if rd_err || op_err || cw_err {
                "read-path-fault"
            } else {
                "other"
            };
            out.violation = Some(Violation {
                clause: "the process ends only by exit 0 or exit 103 (never panic, signal or hang)".into(),
                signature: format!("crash:{cause}"),
                detail: format!("status={} after plan=[{}] world={}", r.status.render(), case.plan.encode_items(), case.world.to_json()),
                expected: "exit:0 or exit:103".into(),
                observed: format!("status={} stderr={:?}", r.status.render(), oracle::show(&r.stderr)),
            });
        }
        out
    }

    fn shrink(&self, _ctx: &Ctx, case: &Case) -> Vec<Case> {
        if case.label.starts_with("W2") {
            return crate::w2::shrink_cases(case);
        }
        crate::shrink::line_candidates(&case.program)
            .into_iter()
            .map(|p| {
                let mut c = case.clone();
                c.program = p;
                c
            })
            .collect()
    }
}

pub fn dedup(plan: &mut Plan) {
    let mut seen = std::collections::BTreeSet::new();
    plan.items.retain(|it| {
        let k = match it {
            Item::Write { fd, n, .. } => format!("w{fd}:{n}"),
            Item::Read { n, .. } => format!("r{n}"),
            Item::Open { n, .. } => format!("o{n}"),
            Item::Cwd { n, .. } => format!("c{n}"),
            Item::WChunk { fd, .. } => format!("wc{fd}"),
            Item::RChunk { .. } => "rc".into(),
            Item::Hint { .. } => "h".into(),
            Item::FType { .. } => "t".into(),
            Item::NbFifo { .. } => "nb".into(),
            Item::Eof { .. } => "eof".into(),
            Item::Flip { .. } => "flip".into(),
            Item::Kill { .. } => "kill".into(),
        };
        seen.insert(k)
    });
}
