pub mod c02;
pub mod c03;
pub mod c12;
pub mod c17;
pub mod c18;
pub mod c19;
