pub mod c02;
pub mod c03;
pub mod c19;
