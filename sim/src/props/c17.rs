// C17 (sink slice) -- a failure injected into any dynamic `print` yields
// exactly one well-formed located diagnostic + correct stack trace, after the
// output so far, exit 103; success => empty stderr, exit 0.

use crate::diag;
use crate::engine::{Case, Ctx, Outcome, Property, Violation};
use crate::exec::{RunResult, Status};
use crate::faults;
use crate::oracle;
use crate::plan::{Item, Plan};
use crate::programs;
use crate::rng::Rng;
use crate::w2::W2Prog;
use crate::world::World;

pub struct C17;

pub const ENUM_P: u64 = 3200;
pub const ENUM_E: u64 = 96;
// ... followed by ENUM_F slots per program that corrupt, one at a time, every call
// name and every string/list '+' the generator knows about
pub const ENUM_F: u64 = 64;

fn flip_candidates(w2: &W2Prog) -> Vec<Item> {
    let mut v = vec![];
    for n in 0..w2.tok_off.len() {
        if let Some(off) = w2.tok_off[n] {
            if is_op_node(w2, n) {
                if matches!(w2.site[n].as_str(), "operator:string" | "operator:list") {
                    v.push(Item::Flip { off, bytes: b"-".to_vec() });
                }
            } else {
                v.push(Item::Flip { off, bytes: b"q".to_vec() });
            }
        }
    }
    v.dedup();
    v
}

const WORLD_DIMS: &[&str] = &["rand", "stdout", "stderr", "merged", "spelling", "cwd_name", "file_name", "rel", "env_kind", "locale", "stdin"];

pub struct SinkFault {
    pub j: usize,       // model index of the print in flight
    pub acked: u64,     // bytes fd 1 accepted before the failing call
    pub errno: i32,
}

// Which print was in flight when the first failing fd-1 write happened.
pub fn locate_fault(w2: &W2Prog, r: &RunResult) -> Option<SinkFault> {
    let fail = r.events.iter().find(|e| e.kind == 'W' && e.fd == 1 && ((e.ret < 0 && e.errno != 4) || e.act == "zero"))?;
    let acked: u64 = r.events.iter().filter(|e| e.kind == 'W' && e.fd == 1 && e.ret > 0 && e.seq < fail.seq).map(|e| e.ret as u64).sum();
    let j = w2.events.iter().position(|ev| ev.end > acked)?;
    Some(SinkFault { j, acked, errno: fail.errno })
}

// Where and in which call context a failure is expected.
pub struct FailDesc {
    pub node: usize,
    pub func: Option<String>,
    pub chain: Vec<(usize, String)>,
    pub chain_in_slot: Vec<bool>,
    pub in_interp: bool,
    pub via_return: bool,
    pub stdout_before: u64,
}

impl FailDesc {
    pub fn from_print(ev: &crate::w2::PrintEvent) -> FailDesc {
        FailDesc {
            node: ev.node,
            func: ev.func.clone(),
            chain: ev.chain.clone(),
            chain_in_slot: ev.chain_in_slot.clone(),
            in_interp: ev.in_interp,
            via_return: ev.via_return,
            stdout_before: ev.end - ev.text.len() as u64,
        }
    }
    pub fn from_call(ev: &crate::w2::CallEvent) -> FailDesc {
        FailDesc {
            node: ev.node,
            func: ev.func.clone(),
            chain: ev.chain.clone(),
            chain_in_slot: ev.chain_in_slot.clone(),
            in_interp: ev.in_interp,
            via_return: ev.via_return,
            stdout_before: ev.off,
        }
    }
}

// Storage corruption of the first byte of a call's name token: the call fails
// with an undefined name the first time it is evaluated.  Returns None when the
// offset is not a call token, Some(None) when the call is never evaluated.
pub fn is_op_node(w2: &W2Prog, n: usize) -> bool {
    w2.site.get(n).map(|s| s.starts_with("operator:")).unwrap_or(false)
}

pub fn locate_name_fault(w2: &W2Prog, off: u64) -> Option<Option<FailDesc>> {
    // `mk()()`: outer and inner call share the first token; the inner callee is looked up
    let node = (0..w2.tok_off.len()).rev().find(|n| w2.tok_off[*n] == Some(off) && !is_op_node(w2, *n))?;
    if let Some(ev) = w2.events.iter().find(|e| e.node == node) {
        return Some(Some(FailDesc::from_print(ev)));
    }
    if let Some(ev) = w2.calls.iter().find(|e| e.node == node) {
        return Some(Some(FailDesc::from_call(ev)));
    }
    Some(None)
}

// Storage corruption of a `+` between two strings or two lists into `-`: the
// operator fails with a type error the first time it is evaluated (both
// operands are evaluated first).  None = not an operator token, Some(None) =
// never evaluated.
pub fn locate_op_fault(w2: &W2Prog, off: u64) -> Option<Option<FailDesc>> {
    let node = (0..w2.tok_off.len()).find(|n| w2.tok_off[*n] == Some(off) && is_op_node(w2, *n))?;
    Some(w2.ops.iter().find(|e| e.node == node).map(FailDesc::from_call))
}

pub fn op_flip_item(rng: &mut Rng, w2: &W2Prog) -> Option<Item> {
    let cands: Vec<u64> = (0..w2.tok_off.len())
        .filter(|n| matches!(w2.site[*n].as_str(), "operator:string" | "operator:list"))
        .filter_map(|n| w2.tok_off[n])
        .collect();
    if cands.is_empty() {
        return None;
    }
    Some(Item::Flip { off: cands[rng.usize_below(cands.len())], bytes: b"-".to_vec() })
}

// Storage corruption of an inter-token space outside every bracket into `,`:
// a token that is never legal there, i.e. a syntax error at exactly that byte.
pub fn comma_flip_item(rng: &mut Rng, w2: &W2Prog) -> Option<Item> {
    let cands: Vec<u64> = w2.spaces.iter().filter(|s| s.stmt_level).map(|s| s.off).collect();
    if cands.is_empty() {
        return None;
    }
    Some(Item::Flip { off: cands[rng.usize_below(cands.len())], bytes: b",".to_vec() })
}

// one of the three storage-corruption failure origins
pub fn flip_item(rng: &mut Rng, w2: &W2Prog) -> Option<Item> {
    match rng.below(10) {
        0..=4 => name_flip_item(rng, w2),
        5..=7 => op_flip_item(rng, w2).or_else(|| name_flip_item(rng, w2)),
        _ => comma_flip_item(rng, w2),
    }
}

pub fn name_flip_item(rng: &mut Rng, w2: &W2Prog) -> Option<Item> {
    let cands: Vec<u64> = (0..w2.tok_off.len()).filter(|n| !is_op_node(w2, *n)).filter_map(|n| w2.tok_off[n]).collect();
    if cands.is_empty() {
        return None;
    }
    Some(Item::Flip { off: cands[rng.usize_below(cands.len())], bytes: b"q".to_vec() })
}

pub fn depth_bucket(d: usize) -> &'static str {
    match d {
        0 => "0",
        1 => "1",
        2 => "2",
        _ => "3+",
    }
}

fn v(clause: &str, sig: &str, detail: String, expected: String, r: &RunResult) -> Violation {
    Violation {
        clause: clause.to_string(),
        signature: sig.to_string(),
        detail,
        expected,
        observed: format!("status={} stdout={:?} stderr={:?}", r.status.render(), oracle::show(&r.stdout), oracle::show(&r.stderr)),
    }
}

pub fn gen_sink_plan(rng: &mut Rng, reference: &RunResult) -> Plan {
    let mut plan = Plan::new();
    let chunked = rng.chance(1, 2);
    if chunked {
        plan.items.push(Item::WChunk { fd: 1, seed: rng.next_u64() >> 1, max: 1 + rng.below(10) });
    }
    let w1 = faults::count_writes(reference, 1).max(1);
    let span = if chunked { w1 * 4 } else { w1 };
    let mut it = faults::write_fault(rng, 1, span);
    if let Item::Write { n, .. } = &mut it {
        // bias: first / last / uniformly inside
        match rng.below(6) {
            0 => *n = 0,
            1 => *n = w1 - 1,
            _ => {}
        }
    }
    plan.items.push(it);
    if rng.chance(1, 5) {
        let n = rng.below(span);
        for b in 0..(1 + rng.below(3)) {
            plan.items.push(Item::Write { fd: 1, n: n + b, act: crate::plan::Act::Eintr });
        }
    }
    if rng.chance(1, 6) {
        plan.items.push(Item::WChunk { fd: 2, seed: rng.next_u64() >> 1, max: 1 + rng.below(10) });
    }
    crate::props::c02::dedup(&mut plan);
    plan
}

impl Property for C17 {
    fn id(&self) -> &'static str {
        "C17"
    }
    fn level(&self) -> &'static str {
        "fault_enumeration"
    }
    fn runs(&self, tier: &str) -> u64 {
        if tier == "thorough" { 2_000_000 } else { 40_000 }
    }
    fn rule(&self) -> String {
        "thorough tier additionally enumerates, for 3200 W2 programs, every single fault (write-call index of the fault-free run x {one-shot ENOSPC, persistent EIO}) up to 48 write calls, and every single corruption of a call name or of a string/list '+' (up to 64 per program); sampled cases: case = (W2 call-tree program, 70%) x (storage corruption of a call name => undefined name | of a string/list '+' => operator type error | of a statement-level space into ',' => syntax error, 25% of these | write error / torn write on fd 1 at a write-call index of the run, 6 errnos, one-shot or persistent, optionally under write chunking and EINTR) | (W1 corpus program, 30%) x (sink kinds, 2>&1, path spelling, hash keys, invisible events); oracle for a fired sink fault with print j in flight (identified from acknowledged bytes), and likewise for a corrupted call/operator at its first evaluation: exit 103; stdout is a prefix of the model output covering prints < j; stderr line 1 = '<argv1>:<L>:<C>:[ in '<f>':] <text>' with f the model's innermost function and (L,C) the print call; Stacktrace has exactly one line per active call with the model's caller names and call positions, ending at <root>; no internal identifier in the text; fault-free W2 run = model stdout, empty stderr, exit 0; W1: transcript equals reference, exit 0 <=> stderr empty, merged stream = stdout ++ stderr; non-trivial = a fault fired or world differs; distinct = distinct (program, world, plan)".to_string()
    }
    fn assumptions(&self) -> Vec<String> {
        vec![
            "slice: failures originating in a sink fault inside print (all call-site kinds/depths/iterations) plus ordering/success clauses on W1; errors of other origins at arbitrary syntactic positions are not searched".into(),
            "the W2 model (evaluation order of call sites, call chains) is validated against the fault-free run of every program; a program whose fault-free run disagrees is skipped and counted".into(),
            "one-shot faults: std retries the failed chunk at exit, so stdout may extend into print j (still a prefix)".into(),
        ]
    }
    fn required_probes(&self, tier: &str) -> Vec<String> {
        let mut v: Vec<String> = vec!["fault-mid-print".into(), "fault-depth-3+".into(), "fault-in-return-expr".into(), "fault-in-loop".into(), "w1-failing-merged".into()];
        if tier == "thorough" {
            v.push("exit-flush-retry".into());
        }
        v
    }

    fn gen_case(&self, ctx: &Ctx, worker: usize, rng: &mut Rng, index: u64) -> Case {
        // thorough tier: the first ENUM_P * ENUM_E indices enumerate every single
        // sink fault (write index x {one-shot, persistent}) of ENUM_P programs
        if ctx.tier == "thorough" && index >= ENUM_P * ENUM_E && index < ENUM_P * (ENUM_E + ENUM_F) {
            let k = index - ENUM_P * ENUM_E;
            let prog_i = k % ENUM_P;
            let slot = (k / ENUM_P) as usize;
            let mut prng = Rng::for_run(ctx.seed, "C17-enum-program", prog_i);
            let p = crate::w2::pick(&mut prng, &crate::w2::GenOpts::default());
            let w2p = crate::w2::build(&p.aux);
            let cands = flip_candidates(&w2p);
            let mut plan = Plan::new();
            if slot < cands.len() {
                plan.items.push(cands[slot].clone());
            }
            let mut aux = p.aux.clone();
            aux["enum_flip"] = serde_json::json!({"program": prog_i, "slot": slot, "candidates": cands.len()});
            return Case { label: p.label, program: p.program, aux, world: World::reference(), plan };
        }
        if ctx.tier == "thorough" && index < ENUM_P * ENUM_E {
            let prog_i = index % ENUM_P;
            let slot = index / ENUM_P;
            let mut prng = Rng::for_run(ctx.seed, "C17-enum-program", prog_i);
            let p = crate::w2::pick(&mut prng, &crate::w2::GenOpts::default());
            let n = slot / 2;
            let act = if slot % 2 == 0 { crate::plan::Act::Err(crate::plan::ENOSPC) } else { crate::plan::Act::PErr(crate::plan::EIO) };
            let mut plan = Plan::new();
            plan.items.push(Item::Write { fd: 1, n, act });
            let mut aux = p.aux.clone();
            aux["enum"] = serde_json::json!({"program": prog_i, "slot": slot});
            return Case { label: p.label, program: p.program, aux, world: World::reference(), plan };
        }
        if rng.chance(7, 10) {
            let p = crate::w2::pick(rng, &crate::w2::GenOpts::default());
            let reference = ctx.reference(worker, &p.program);
            let mut plan = gen_sink_plan(rng, &reference);
            if rng.chance(1, 4) {
                // storage corruption (call name / operator / stray comma) instead of a sink fault
                let w2p = crate::w2::build(&p.aux);
                if let Some(it) = flip_item(rng, &w2p) {
                    plan = Plan::new();
                    plan.items.push(it);
                    if rng.chance(1, 3) {
                        plan.items.push(Item::RChunk { seed: rng.next_u64() >> 1, max: 1 + rng.below(16) });
                    }
                }
            }
            let mut world = if rng.chance(1, 3) { World::random(rng, &["rand", "spelling", "file_name", "cwd_name", "rel", "stdout", "stderr", "merged", "env_kind", "locale"]) } else { World::reference() };
            // a closed fd swallows writes silently (std treats EBADF on stdio as success): not a sink-fault world
            if world.stdout == 3 || world.stdout == 9 {
                world.stdout = 5;
            }
            if world.stderr == 3 || world.stderr == 9 {
                world.stderr = 1;
            }
            world.normalize();
            Case { label: p.label, program: p.program, aux: p.aux, world, plan }
        } else {
            let p = match rng.below(8) {
                0 | 1 => programs::pick_w4(ctx, rng),
                2 => if rng.chance(1, 2) { programs::pick_w5(rng) } else { programs::pick_w6(rng) },
                _ => programs::pick_w1(ctx, rng),
            };
            let reference = ctx.reference(worker, &p.program);
            let mut world = World::random(rng, WORLD_DIMS);
            if rng.chance(1, 3) {
                world.merged = true;
                world.normalize();
            }
            let mut plan = if rng.chance(1, 2) { oracle::invisible_plan(rng, &reference) } else { Plan::new() };
            let w2n = faults::count_writes(&reference, 2);
            if w2n > 0 && rng.chance(1, 4) {
                // the diagnostic itself cannot be written (completely): the outcome must not change
                plan = Plan::new();
                plan.items.push(faults::write_fault(rng, 2, w2n));
                if rng.chance(1, 3) {
                    plan.items.push(Item::WChunk { fd: 2, seed: rng.next_u64() >> 1, max: 1 + rng.below(10) });
                }
            }
            Case { label: p.label, program: p.program, aux: p.aux, world, plan }
        }
    }

    fn check(&self, ctx: &Ctx, worker: usize, case: &Case) -> Outcome {
        if case.label.starts_with("W2") {
            check_w2(ctx, worker, case)
        } else {
            check_w1(ctx, worker, case)
        }
    }

    fn shrink(&self, _ctx: &Ctx, case: &Case) -> Vec<Case> {
        if case.label.starts_with("W2") {
            return crate::w2::shrink_cases(case);
        }
        crate::shrink::line_candidates(&case.program)
            .into_iter()
            .map(|p| {
                let mut c = case.clone();
                c.program = p;
                c
            })
            .collect()
    }
}

// Compare stderr with the model.  With `k1` the known slot-relative deviation
// is tolerated: one extra leading location segment per enclosing slot, and
// unchecked positions for calls written inside a slot.
pub fn check_diag(w2: &W2Prog, ev: &FailDesc, r: &RunResult, k1: bool, sig_extra: &mut String) -> Vec<String> {
    let mut bad = vec![];
    let slot_containers: Vec<Option<String>> = if k1 {
        ev.chain
            .iter()
            .zip(ev.chain_in_slot.iter())
            .rev()
            .filter(|(_, s)| **s)
            .map(|((_, c), _)| if c == "<root>" { None } else { Some(c.clone()) })
            .collect()
    } else {
        vec![]
    };
    match diag::parse(&r.stderr, &r.argv1) {
        None => bad.push("stderr does not start with a line '<path as given>:<line>:<col>: ...'".into()),
        Some(d) => {
            let (el, ec) = w2.pos[ev.node].unwrap_or((0, 0));
            let (segs, msg) = diag::segments(&d.head);
            if segs.len() != slot_containers.len() + 1 {
                bad.push(format!("first line carries {} location segment(s), expected {}", segs.len(), slot_containers.len() + 1));
            } else {
                for (k, sc) in slot_containers.iter().enumerate() {
                    if segs[k].2 != *sc {
                        bad.push(format!("location segment {} names function {:?}, the interpolated string is in {:?}", k + 1, segs[k].2, sc));
                    }
                    if segs[k].0 < 1 || segs[k].0 > w2.lines {
                        bad.push(format!("location segment {} line {} outside the script", k + 1, segs[k].0));
                    }
                }
                let last = &segs[segs.len() - 1];
                if last.2 != ev.func {
                    bad.push(format!("first line names function {:?}, the print is in {:?}", last.2, ev.func));
                }
                if (last.0, last.1) != (el, ec) {
                    bad.push(format!("first line position {}:{} is not the print call at {}:{}", last.0, last.1, el, ec));
                }
            }
            if msg.trim().is_empty() {
                bad.push("empty message".into());
            }
            if let Some(w) = diag::internal_identifier(&d.head.msg) {
                bad.push(format!("internal identifier '{w}' in the message"));
                *sig_extra = format!(":internal-{w}");
            }
            // lines after the complete diagnostic are not forbidden by the statement;
            // lines inside it are
            if d.junk_before_trace_end {
                bad.push(format!("unexpected stderr lines inside the diagnostic: {:?}", d.junk));
            }
            if ev.chain.is_empty() {
                if d.has_stacktrace_header || !d.trace.is_empty() {
                    bad.push("stack trace printed for a failure at top level".into());
                }
            } else {
                if !d.has_stacktrace_header {
                    bad.push("no 'Stacktrace:' although the failure is inside function calls".into());
                }
                if d.trace.len() != ev.chain.len() {
                    bad.push(format!("{} stack-trace lines for {} active calls", d.trace.len(), ev.chain.len()));
                } else {
                    for (k, (cn, caller)) in ev.chain.iter().enumerate() {
                        let t = &d.trace[k];
                        let (l, c) = w2.pos[*cn].unwrap_or((0, 0));
                        if t.caller != *caller {
                            bad.push(format!("trace line {} names '{}', the call is in '{}'", k + 1, t.caller, caller));
                        }
                        if !(k1 && ev.chain_in_slot[k]) && (t.line, t.col) != (l, c) {
                            bad.push(format!("trace line {} position {}:{} is not the call at {}:{}", k + 1, t.line, t.col, l, c));
                        }
                    }
                }
            }
        }
    }
    bad
}

fn check_w1(ctx: &Ctx, worker: usize, case: &Case) -> Outcome {
    let mut out = Outcome::default();
    let reference = ctx.reference(worker, &case.program);
    if oracle::is_crash(&reference.status) {
        out.skipped = Some("reference-run-crashes".into());
        return out;
    }
    let r = ctx.run(worker, &case.program, &case.world, &case.plan);
    out.io_events = r.events.len() as u64;
    out.history_shape = r.history_shape();
    out.fired = oracle::fired_kinds(&case.plan, &r);
    out.nontrivial = case.world != World::reference() || !out.fired.is_empty();
    let failing = reference.status == Status::Exit(103);
    out.cells.push(format!("w1:{}:merged={}", if failing { "failing" } else { "ok" }, case.world.merged));
    if failing && case.world.merged {
        out.probes.push("w1-failing-merged".into());
    }
    let exp_err = oracle::expected_stderr(&reference, &r.argv1, &r.abs_script);
    let cmp_stdout = case.world.stdout != 3 && case.world.stdout != 9;
    let cmp_stderr = (case.world.stderr != 3 && case.world.stderr != 9) || case.world.merged;
    let mut bad = vec![];
    if r.events.iter().any(|e| e.kind == 'W' && e.fd == 2 && ((e.ret < 0 && e.errno != 4) || e.act == "zero")) {
        // stderr refused (part of) the diagnostic: what can still be asserted is that the
        // failure is a failure (exit 103) and that the output so far is intact
        out.probes.push("w1-stderr-fault".into());
        out.cells.push("w1:stderr-fault".into());
        if r.status != reference.status {
            bad.push(format!("exit status {} instead of {} when the diagnostic could not be written", r.status.render(), reference.status.render()));
        }
        if cmp_stdout && !case.world.merged && r.stdout != reference.stdout {
            bad.push("stdout changed when the diagnostic could not be written".to_string());
        }
        if !bad.is_empty() {
            out.violation = Some(v(
                "a failing script exits with status 103 after the output of the prints completed before the failure",
                "w1-stderr-fault-outcome",
                format!("{}; world={} plan=[{}]", bad.join("; "), case.world.to_json(), case.plan.encode_items()),
                format!("status={} stdout={:?}", reference.status.render(), oracle::show(&reference.stdout)),
                &r,
            ));
        }
        return out;
    }
    if r.status != reference.status {
        bad.push("exit status differs from the reference world".to_string());
    }
    if cmp_stdout && r.stdout != reference.stdout {
        bad.push("stdout differs from the reference world".to_string());
    }
    if cmp_stderr && r.stderr != exp_err {
        bad.push("stderr differs from the reference world".to_string());
    }
    // form clauses (hold for every program)
    match r.status {
        Status::Exit(0) => {
            if cmp_stderr && !r.stderr.is_empty() {
                bad.push("exit 0 but stderr is not empty".to_string());
            }
        }
        Status::Exit(103) => {
            let mut pre = r.argv1.clone();
            pre.push(b':');
            if cmp_stderr && !r.stderr.starts_with(&pre) {
                bad.push("exit 103 but stderr does not start with '<path as given>:'".to_string());
            } else if cmp_stderr {
                // located form, unless the script could not be read at all
                let first = r.stderr.split(|b| *b == b'\n').next().unwrap_or(b"");
                let rest = String::from_utf8_lossy(&first[pre.len().min(first.len())..]).to_string();
                let unreadable = rest.starts_with(" couldn't read script") || rest.starts_with(" couldn't get current directory");
                if !unreadable && crate::props::c03::parse_located(first, &r.argv1).is_none() {
                    bad.push("exit 103 but the first stderr line is not '<path as given>:<line>:<col>: <message>'".to_string());
                    out.probes.push("w1-unlocated-diagnostic".into());
                }
            }
        }
        _ => {}
    }
    if case.world.merged && bad.is_empty() {
        let mut m = reference.stdout.clone();
        m.extend_from_slice(&exp_err);
        if r.merged() != m {
            bad.push("under 2>&1 the diagnostic is not after the output so far".to_string());
        }
    }
    if case.world.merged && !r.seam_ok {
        bad.push("under 2>&1 the shared sink does not hold the output so far followed by the diagnostic (bytes were overwritten or reordered)".to_string());
    }
    if bad.is_empty() {
        if let Some(d) = oracle::check_diag_after_output(&r) {
            bad.push(d);
        }
    }
    if !bad.is_empty() {
        out.violation = Some(v(
            "a failing script: stdout = prints completed before the failure, then one diagnostic '<path as given>:...', exit 103; a successful script: empty stderr, exit 0",
            "w1-transcript-form",
            format!("{}; world={} plan=[{}]", bad.join("; "), case.world.to_json(), case.plan.encode_items()),
            format!("status={} stdout={:?} stderr={:?}", reference.status.render(), oracle::show(&reference.stdout), oracle::show(&exp_err)),
            &r,
        ));
    }
    out
}

fn check_w2(ctx: &Ctx, worker: usize, case: &Case) -> Outcome {
    let mut out = Outcome::default();
    let w2 = crate::w2::build(&case.aux);
    if w2.text != case.program {
        out.skipped = Some("aux-text-mismatch".into());
        return out;
    }
    // the model must agree with the fault-free run, else this program is not usable
    let reference = ctx.reference(worker, &case.program);
    if reference.status == Status::Exit(0) && !reference.stderr.is_empty() {
        // holds for every program, model or not: success means a silent stderr
        out.nontrivial = true;
        out.violation = Some(v(
            "a successful script writes nothing to stderr and exits 0",
            "success-with-stderr",
            "the fault-free run in the reference world exits 0 but wrote to stderr".to_string(),
            "exit:0 stderr=\"\"".into(),
            &reference,
        ));
        return out;
    }
    if reference.stdout != w2.stdout || reference.status != Status::Exit(0) || !reference.stderr.is_empty() {
        out.skipped = Some("baseline_mismatch".into());
        return out;
    }
    if let Some(e) = case.aux.get("enum") {
        let w1 = faults::count_writes(&reference, 1);
        let slot = e.get("slot").and_then(|v| v.as_u64()).unwrap_or(0);
        if slot == 0 {
            out.probes.push(if w1 * 2 <= ENUM_E { "enum:program-fully-enumerated".into() } else { "enum:program-partly-enumerated".into() });
        }
        if slot / 2 >= w1 {
            out.skipped = Some("enum-slot-beyond-run".into());
            return out;
        }
        out.probes.push("enum:case".into());
    }
    if let Some(e) = case.aux.get("enum_flip") {
        let slot = e.get("slot").and_then(|v| v.as_u64()).unwrap_or(0);
        let cands = e.get("candidates").and_then(|v| v.as_u64()).unwrap_or(0);
        if slot == 0 {
            out.probes.push(if cands <= ENUM_F { "enum:flips-fully-enumerated".into() } else { "enum:flips-partly-enumerated".into() });
        }
        if slot >= cands {
            out.skipped = Some("enum-slot-beyond-run".into());
            return out;
        }
        out.probes.push("enum:flip-case".into());
    }
    let r = ctx.run(worker, &case.program, &case.world, &case.plan);
    out.io_events = r.events.len() as u64;
    out.history_shape = r.history_shape();
    out.fired = oracle::fired_kinds(&case.plan, &r);
    let clause = "a failure inside print is one located diagnostic with the active call chain, after the output so far, exit 103";

    let flip = case.plan.items.iter().find_map(|i| if let Item::Flip { off, bytes } = i { Some((*off, bytes.clone())) } else { None });
    if let Some((off, bytes)) = &flip {
        if bytes.as_slice() == b"," {
            // syntax error through storage corruption: nothing runs, one located line, no trace
            let sp = match w2.spaces.iter().find(|s| s.off == *off && s.stmt_level) {
                Some(sp) => sp,
                None => {
                    out.skipped = Some("flip-not-on-a-statement-level-space".into());
                    return out;
                }
            };
            out.nontrivial = true;
            out.probes.push("comma-flip".into());
            out.cells.push("parse-error:comma".into());
            let mut bad: Vec<String> = vec![];
            if r.status != Status::Exit(103) {
                bad.push(format!("exit status {} instead of 103", r.status.render()));
            }
            if !r.stdout.is_empty() {
                bad.push("a script with a syntax error wrote to stdout".into());
            }
            match diag::parse(&r.stderr, &r.argv1) {
                None => bad.push("stderr does not start with a line '<path as given>:<line>:<col>: ...'".into()),
                Some(d) => {
                    let (segs, msg) = diag::segments(&d.head);
                    if segs.len() != 1 || segs[0].2.is_some() {
                        bad.push("a syntax error carries exactly one location and no function".into());
                    } else if (segs[0].0, segs[0].1) != (sp.line, sp.col) {
                        bad.push(format!("syntax error reported at {}:{}, the unexpected token is at {}:{}", segs[0].0, segs[0].1, sp.line, sp.col));
                    }
                    if msg.trim().is_empty() {
                        bad.push("empty message".into());
                    }
                    if let Some(w) = diag::internal_identifier(&d.head.msg) {
                        bad.push(format!("internal identifier '{w}' in the message"));
                    }
                    if d.has_stacktrace_header || !d.trace.is_empty() {
                        bad.push("stack trace printed for a syntax error".into());
                    }
                    if d.junk_before_trace_end {
                        bad.push(format!("unexpected stderr lines inside the diagnostic: {:?}", d.junk));
                    }
                }
            }
            if !bad.is_empty() {
                out.violation = Some(v(
                    "a lexical/parse error is one located diagnostic, nothing on stdout, exit 103",
                    "parse-error-diagnostic",
                    format!("{}; plan=[{}]", bad.join("; "), case.plan.encode_items()),
                    format!("exit:103 stdout=\"\" stderr='{}:{}:{}: <msg>'", String::from_utf8_lossy(&r.argv1), sp.line, sp.col),
                    &r,
                ));
            }
            return out;
        }
    }
    let flip = flip.map(|(off, _)| off);
    let mut fault_kind = "sink";
    let (fd, partial_ok, what): (FailDesc, bool, String) = if let Some(off) = flip {
        let located = match locate_op_fault(&w2, off) {
            Some(x) => {
                fault_kind = "op";
                Some(x)
            }
            None => {
                fault_kind = "name";
                locate_name_fault(&w2, off)
            }
        };
        match located {
            None => {
                out.skipped = Some("flip-not-on-a-call-token".into());
                return out;
            }
            Some(None) => {
                // the corrupted call is never evaluated: the script must still succeed
                out.nontrivial = true;
                out.cells.push(format!("w2:{fault_kind}-flip-dead-code"));
                if r.stdout != w2.stdout || !r.stderr.is_empty() || r.status != Status::Exit(0) {
                    out.violation = Some(v(
                        "a successful script writes its output, nothing to stderr, and exits 0",
                        "w2-success-transcript",
                        format!("corrupted token in code that is never evaluated changed the run; plan=[{}]", case.plan.encode_items()),
                        format!("exit:0 stdout={:?} stderr=\"\"", oracle::show(&w2.stdout)),
                        &r,
                    ));
                }
                return out;
            }
            Some(Some(fd)) => {
                out.probes.push(format!("{fault_kind}-flip"));
                (fd, false, format!("{} at offset {}", if fault_kind == "op" { "operator type error" } else { "undefined-name" }, off))
            }
        }
    } else {
        match locate_fault(&w2, &r) {
            None => {
                // nothing failed: success clause
                out.nontrivial = !out.fired.is_empty();
                out.cells.push("w2:no-fault".into());
                if r.stdout != w2.stdout || !r.stderr.is_empty() || r.status != Status::Exit(0) {
                    out.violation = Some(v(
                        "a successful script writes its output, nothing to stderr, and exits 0",
                        "w2-success-transcript",
                        format!("fault-free/invisible-event run deviates from the model; plan=[{}]", case.plan.encode_items()),
                        format!("exit:0 stdout={:?} stderr=\"\"", oracle::show(&w2.stdout)),
                        &r,
                    ));
                }
                return out;
            }
            Some(sf) => {
                let ev = &w2.events[sf.j];
                if sf.acked > ev.end - ev.text.len() as u64 {
                    out.probes.push("fault-mid-print".into());
                }
                if (r.stdout.len() as u64) > sf.acked {
                    out.probes.push("exit-flush-retry".into());
                }
                out.cells.push(format!("errno={}", sf.errno));
                (FailDesc::from_print(ev), true, format!("print #{} acked={}", sf.j, sf.acked))
            }
        }
    };
    out.nontrivial = true;
    let ev = &fd;
    let prev_end = fd.stdout_before;
    let this_end = if partial_ok { w2.events.iter().find(|e| e.node == fd.node && e.end > prev_end).map(|e| e.end).unwrap_or(prev_end) } else { prev_end };
    let depth = ev.chain.len();
    let kind = fault_kind;
    out.cells.push(format!("{kind}:site={}:depth={}", w2.site[ev.node], depth_bucket(depth)));
    for (cn, _) in &ev.chain {
        out.cells.push(format!("{kind}:chain-site={}", w2.site[*cn]));
    }
    if depth >= 3 {
        out.probes.push("fault-depth-3+".into());
    }
    if w2.events.iter().any(|e| e.node == fd.node && e.loop_iter) {
        out.probes.push("fault-in-loop".into());
    }
    if ev.via_return {
        out.probes.push("fault-in-return-expr".into());
        out.cells.push("via-return-expr".into());
    }

    let mut bad: Vec<String> = vec![];
    if r.status != Status::Exit(103) {
        bad.push(format!("exit status {} instead of 103", r.status.render()));
    }
    if case.world.merged && !r.seam_ok {
        bad.push("under 2>&1 the shared sink does not hold the output so far followed by the diagnostic (bytes were overwritten or reordered)".to_string());
    }
    // stdout: prefix of the model output, covering every completed print
    if !w2.stdout.starts_with(&r.stdout) {
        bad.push("stdout is not a prefix of the fault-free output".into());
    } else if (r.stdout.len() as u64) < prev_end {
        bad.push(format!("output of a completed print was lost ({} bytes < {})", r.stdout.len(), prev_end));
    } else if (r.stdout.len() as u64) > this_end {
        bad.push("stdout continues past the point of failure".into());
    }

    // Known finding K1: a call written inside an interpolation slot is reported
    // with a slot-relative position, and every enclosing slot adds one extra
    // leading location segment to the first line.  Exactly that deviation is
    // tolerated (and reported as KNOWN-FINDING when observed); the correct
    // behaviour is accepted too, and everything else is still asserted.
    let mut sig_extra = String::new();
    let strict = check_diag(&w2, ev, &r, false, &mut sig_extra);
    let sf_j = what.clone();
    if ev.in_interp && !strict.is_empty() {
        let mut sx = String::new();
        let k1 = check_diag(&w2, ev, &r, true, &mut sx);
        if k1.is_empty() {
            out.known.push("interp-slot-positions".into());
        } else {
            bad.extend(k1);
            sig_extra = sx;
        }
    } else {
        bad.extend(strict);
    }
    if !bad.is_empty() {
        let site = &w2.site[ev.node];
        let via_return = ev.via_return;
        let sig = if sig_extra.is_empty() { format!("{kind}-fault-diagnostic:{}", if via_return { "via-return-expr" } else { site }) } else { format!("{kind}-fault-diagnostic{sig_extra}") };
        out.violation = Some(v(
            clause,
            &sig,
            format!("{}; {} (site {}, depth {}) plan=[{}]", bad.join("; "), sf_j, site, depth, case.plan.encode_items()),
            format!(
                "exit:103; stdout prefix of model ({} bytes); stderr: '{}:{}:{}:{} <msg>' + {} trace lines {:?}",
                prev_end,
                String::from_utf8_lossy(&r.argv1),
                w2.pos[ev.node].map(|p| p.0).unwrap_or(0),
                w2.pos[ev.node].map(|p| p.1).unwrap_or(0),
                ev.func.as_ref().map(|f| format!(" in '{f}':")).unwrap_or_default(),
                ev.chain.len(),
                ev.chain.iter().map(|(cn, c)| format!("{}:{} in '{}'", w2.pos[*cn].map(|p| p.0).unwrap_or(0), w2.pos[*cn].map(|p| p.1).unwrap_or(0), c)).collect::<Vec<_>>()
            ),
            &r,
        ));
    }
    out
}
