// C18 (call-site + storage-corruption slice) -- reported line:col of a failing
// call, of every stack-trace line, and of a lexical error caused by a
// corrupted stored byte equal the true text position under all layouts of the
// preceding text.  The true position comes from the W2 layout printer.

use crate::diag;
use crate::engine::{Case, Ctx, Outcome, Property, Violation};
use crate::exec::Status;
use crate::oracle;
use crate::plan::{Item, Plan};
use crate::props::c17::{comma_flip_item, gen_sink_plan, locate_fault, locate_name_fault, locate_op_fault, name_flip_item, op_flip_item, FailDesc};
use crate::rng::Rng;
use crate::world::World;

pub struct C18;

fn check_positions(w2: &crate::w2::W2Prog, ev: &FailDesc, r: &crate::exec::RunResult, case: &Case, kind: &str, mut out: Outcome) -> Outcome {
    let clause = "a reported position is the true line and column of the offending token, whatever precedes it";
    let d = match diag::parse(&r.stderr, &r.argv1) {
        None => {
            out.probes.push("unparsed".into());
            return out;
        }
        Some(d) => d,
    };
    let mut bad = vec![];
    let mut kinds = vec![];
    let mut known_k1 = false;
    let (el, ec) = w2.pos[ev.node].unwrap_or((0, 0));
    out.probes.push("pos:call".into());
    for f in &w2.feats[ev.node] {
        out.probes.push(format!("feat:{f}"));
        out.cells.push(format!("{kind}<-{f}"));
    }
    let (segs, _) = diag::segments(&d.head);
    let last = segs[segs.len() - 1].clone();
    if (last.0, last.1) != (el, ec) {
        bad.push(format!("failing {kind} reported at {}:{}, its first token is at {}:{}", last.0, last.1, el, ec));
        kinds.push(kind.to_string());
    }
    if d.trace.len() == ev.chain.len() {
        for (k, (cn, _)) in ev.chain.iter().enumerate() {
            let (l, c) = w2.pos[*cn].unwrap_or((0, 0));
            out.probes.push("pos:trace".into());
            for f in &w2.feats[*cn] {
                out.probes.push(format!("feat:{f}"));
                out.cells.push(format!("trace<-{f}"));
            }
            if (d.trace[k].line, d.trace[k].col) != (l, c) {
                if ev.chain_in_slot[k] {
                    // K1: a call written inside an interpolation slot (known_findings.json)
                    known_k1 = true;
                    continue;
                }
                bad.push(format!("stack-trace line {} gives {}:{}, that call is at {}:{}", k + 1, d.trace[k].line, d.trace[k].col, l, c));
                kinds.push("trace".to_string());
            }
        }
    } else {
        out.probes.push("trace-length-mismatch(C17)".into());
    }
    if known_k1 {
        out.known.push("interp-slot-positions".into());
    }
    if !bad.is_empty() {
        kinds.dedup();
        out.violation = Some(Violation {
            clause: clause.into(),
            signature: format!("position:{}", kinds.join("+")),
            detail: format!("{}; plan=[{}]", bad.join("; "), case.plan.encode_items()),
            expected: format!("{kind} {}:{} trace {:?}", el, ec, ev.chain.iter().map(|(cn, _)| w2.pos[*cn].unwrap_or((0, 0))).collect::<Vec<_>>()),
            observed: format!("stderr={:?}", oracle::show(&r.stderr)),
        });
    }
    out
}

// thorough tier: for ENUM_P generated programs, every single stored-byte corruption the
// generator can interpret (each inter-token space -> illegal character, each
// statement-level space -> ',', each call name, each string/list '+') is tried
pub const ENUM_P: u64 = 2500;
pub const ENUM_E: u64 = 360;

// all single-byte corruptions of a program, in a fixed order
fn corruption_candidates(w2: &crate::w2::W2Prog) -> Vec<Item> {
    let mut v = vec![];
    for n in 0..w2.tok_off.len() {
        if let Some(off) = w2.tok_off[n] {
            if crate::props::c17::is_op_node(w2, n) {
                if matches!(w2.site[n].as_str(), "operator:string" | "operator:list") {
                    v.push(Item::Flip { off, bytes: b"-".to_vec() });
                }
            } else {
                v.push(Item::Flip { off, bytes: b"q".to_vec() });
            }
        }
    }
    for (i, sp) in w2.spaces.iter().enumerate() {
        if sp.stmt_level {
            v.push(Item::Flip { off: sp.off, bytes: b",".to_vec() });
        }
        v.push(Item::Flip { off: sp.off, bytes: REPL[i % REPL.len()].to_vec() });
    }
    v.dedup();
    v
}

const REPL: &[&[u8]] = &[b"@", b"~", b"^", b"?", b"\x01", b"`", "é".as_bytes(), "✓".as_bytes(), b"\x0b", "𝄞".as_bytes()];

impl Property for C18 {
    fn id(&self) -> &'static str {
        "C18"
    }
    fn level(&self) -> &'static str {
        "exploration"
    }
    fn runs(&self, tier: &str) -> u64 {
        if tier == "thorough" { 2_400_000 } else { 40_000 }
    }
    fn rule(&self) -> String {
        "thorough tier first enumerates, for 2500 generated programs, every single stored-byte corruption the generator can interpret (up to 360 per program: every inter-token space -> an illegal character, every statement-level space -> ',', every call name, every string/list '+'); sampled cases: case = (W2 call-tree IR rendered by the layout printer under a seeded layout: tabs, CR LF, blank lines, `;` terminators, comments with multi-byte text, continuation breaks after every documented continuation token, multi-line and multi-byte string literals before call sites) x (write error on fd 1 at a write index => the print call and every active call become reported positions | the first byte of a call's name corrupted in storage => an undefined-name position | a '+' between strings/lists corrupted into '-' => an operator position | one inter-token space replaced by a character no token starts with, incl. multi-byte ones, optionally delivered across read-chunk boundaries => a lexical error position | an inter-token space outside all brackets replaced by ',' => a syntax-error position); oracle: every <line>:<col> on stderr line 1 and on each stack-trace line equals the printer's recorded position of that call's first token; the lexical error position equals the position of the corrupted byte; non-trivial = a fault fired; distinct = distinct (program text, plan)".to_string()
    }
    fn assumptions(&self) -> Vec<String> {
        vec![
            "slice: positions of failing calls, stack-trace lines, lexical errors, and - through corruption of one stored byte - an undefined name, an operator type error ('+' between strings/lists turned into '-') and a syntax error (stray ',' at statement level); other parse-error shapes and overflow positions need a wrong script (input generation) and are not covered".into(),
            "the printer's position rule is C18's statement: line = 1 + newlines before the token, column = 1 + characters since the last newline; it shares no code with /repo".into(),
            "well-formedness of the diagnostic is C17's business: a stderr that does not parse gives no C18 verdict (counted as 'unparsed')".into(),
        ]
    }
    fn required_probes(&self, _tier: &str) -> Vec<String> {
        vec![
            "pos:call".into(), "pos:trace".into(), "pos:lex".into(), "pos:undefined-name".into(), "pos:operator".into(), "pos:parse".into(),
            "feat:tab-before".into(), "feat:cr-before".into(), "feat:multibyte-before".into(), "feat:comment-before".into(),
            "feat:multiline-string".into(), "feat:continuation-break".into(), "feat:blank-lines".into(), "feat:same-line-stmt".into(),
        ]
    }

    fn gen_case(&self, ctx: &Ctx, worker: usize, rng: &mut Rng, index: u64) -> Case {
        if ctx.tier == "thorough" && index < ENUM_P * ENUM_E {
            let prog_i = index % ENUM_P;
            let slot = (index / ENUM_P) as usize;
            let mut prng = Rng::for_run(ctx.seed, "C18-enum-program", prog_i);
            // small programs, so that most of them are enumerated completely
            let small = crate::w2::GenOpts { max_calls: 12, max_depth: 3, top_stmts: 3, interp: true };
            let p = crate::w2::pick_with(&mut prng, &small, true);
            let w2p = crate::w2::build(&p.aux);
            let cands = corruption_candidates(&w2p);
            let mut plan = Plan::new();
            let mut aux = p.aux.clone();
            aux["enum"] = serde_json::json!({"program": prog_i, "slot": slot, "candidates": cands.len()});
            if slot < cands.len() {
                plan.items.push(cands[slot].clone());
            }
            return Case { label: p.label, program: p.program, aux, world: World::reference(), plan };
        }
        let layout = rng.chance(9, 10);
        let p = crate::w2::pick_with(rng, &crate::w2::GenOpts::default(), layout);
        let reference = ctx.reference(worker, &p.program);
        let mut plan = Plan::new();
        let mode = rng.below(10);
        if mode < 5 {
            plan = gen_sink_plan(rng, &reference);
        } else if mode < 7 {
            let w2p = crate::w2::build(&p.aux);
            let it = if rng.chance(1, 2) { op_flip_item(rng, &w2p).or_else(|| name_flip_item(rng, &w2p)) } else { name_flip_item(rng, &w2p) };
            if let Some(it) = it {
                plan.items.push(it);
            }
        } else if mode < 8 {
            let w2p = crate::w2::build(&p.aux);
            if let Some(it) = comma_flip_item(rng, &w2p) {
                plan.items.push(it);
                if rng.chance(1, 2) {
                    plan.items.push(Item::RChunk { seed: rng.next_u64() >> 1, max: 1 + rng.below(8) });
                }
            }
        } else {
            let w2p = crate::w2::build(&p.aux);
            if !w2p.spaces.is_empty() {
                let sp = &w2p.spaces[rng.usize_below(w2p.spaces.len())];
                plan.items.push(Item::Flip { off: sp.off, bytes: REPL[rng.usize_below(REPL.len())].to_vec() });
                if rng.chance(1, 2) {
                    plan.items.push(Item::RChunk { seed: rng.next_u64() >> 1, max: 1 + rng.below(8) });
                }
            }
        }
        if rng.chance(1, 6) {
            // the script arrives through a pipe (not seekable, one stream position, size 0)
            plan.items.push(Item::FType { kind: 1 + rng.below(3) as u8 });
            if !plan.items.iter().any(|i| matches!(i, Item::RChunk { .. })) && rng.chance(1, 2) {
                plan.items.push(Item::RChunk { seed: rng.next_u64() >> 1, max: 1 + rng.below(32) });
            }
        }
        let world = if rng.chance(1, 5) { World::random(rng, &["rand", "spelling", "file_name", "heap_pad"]) } else { World::reference() };
        Case { label: p.label, program: p.program, aux: p.aux, world, plan }
    }

    fn check(&self, ctx: &Ctx, worker: usize, case: &Case) -> Outcome {
        let mut out = Outcome::default();
        let w2 = crate::w2::build(&case.aux);
        if w2.text != case.program {
            out.skipped = Some("aux-text-mismatch".into());
            return out;
        }
        let reference = ctx.reference(worker, &case.program);
        if reference.stdout != w2.stdout || reference.status != Status::Exit(0) || !reference.stderr.is_empty() {
            out.skipped = Some("baseline_mismatch".into());
            return out;
        }
        if let Some(e) = case.aux.get("enum") {
            let slot = e.get("slot").and_then(|v| v.as_u64()).unwrap_or(0);
            let cands = e.get("candidates").and_then(|v| v.as_u64()).unwrap_or(0);
            if slot == 0 {
                out.probes.push(if cands <= ENUM_E { "enum:program-fully-enumerated".into() } else { "enum:program-partly-enumerated".into() });
            }
            if slot >= cands {
                out.skipped = Some("enum-slot-beyond-run".into());
                return out;
            }
            out.probes.push("enum:case".into());
        }
        let r = ctx.run(worker, &case.program, &case.world, &case.plan);
        out.io_events = r.events.len() as u64;
        out.history_shape = r.history_shape();
        out.fired = oracle::fired_kinds(&case.plan, &r);
        let clause = "a reported position is the true line and column of the offending token, whatever precedes it";

        // lexical corruption
        if let Some((off, bytes)) = case.plan.items.iter().find_map(|i| if let Item::Flip { off, bytes } = i { Some((*off, bytes.clone())) } else { None }) {
            let sp = match w2.spaces.iter().find(|s| s.off == off) {
                Some(s) => s,
                None => {
                    // corrupted operator: a type error at a known operator token
                    if let Some(x) = locate_op_fault(&w2, off) {
                        return match x {
                            Some(fd) => {
                                out.nontrivial = true;
                                out.probes.push("pos:operator".into());
                                check_positions(&w2, &fd, &r, case, "operator", out)
                            }
                            None => out,
                        };
                    }
                    // corrupted call name: an undefined-name failure at a known call
                    return match locate_name_fault(&w2, off) {
                        Some(Some(fd)) => {
                            out.nontrivial = true;
                            out.probes.push("pos:undefined-name".into());
                            check_positions(&w2, &fd, &r, case, "name", out)
                        }
                        Some(None) => out,
                        None => {
                            out.skipped = Some("flip-not-on-a-space-or-call".into());
                            out
                        }
                    };
                }
            };
            let comma = bytes.as_slice() == b",";
            if comma && !sp.stmt_level {
                out.skipped = Some("comma-flip-inside-brackets".into());
                return out;
            }
            out.nontrivial = true;
            let first = r.stderr.split(|b| *b == b'\n').next().unwrap_or(b"");
            match diag::parse_head(&String::from_utf8_lossy(first), &String::from_utf8_lossy(&r.argv1)) {
                None => out.probes.push("unparsed".into()),
                Some(h) => {
                    out.probes.push(if comma { "pos:parse".into() } else { "pos:lex".into() });
                    out.cells.push(if comma { "parse:comma".to_string() } else { format!("lex:{}", if bytes.len() > 1 { "multibyte" } else { "ascii" }) });
                    if (h.line, h.col) != (sp.line, sp.col) {
                        out.violation = Some(Violation {
                            clause: clause.into(),
                            signature: if comma { "parse-position".into() } else { "lex-position".into() },
                            detail: format!("lexical/syntax error reported at {}:{}, the corrupted byte is at {}:{} (offset {}); plan=[{}]", h.line, h.col, sp.line, sp.col, off, case.plan.encode_items()),
                            expected: format!("{}:{}", sp.line, sp.col),
                            observed: format!("{}:{} stderr={:?}", h.line, h.col, oracle::show(&r.stderr)),
                        });
                    }
                }
            }
            return out;
        }

        let sf = match locate_fault(&w2, &r) {
            None => return out,
            Some(s) => s,
        };
        out.nontrivial = true;
        let fd = FailDesc::from_print(&w2.events[sf.j]);
        return check_positions(&w2, &fd, &r, case, "call", out);
    }

    fn shrink(&self, _ctx: &Ctx, case: &Case) -> Vec<Case> {
        // keep the layout: it is what the violation depends on; remove statements only
        crate::w2::shrink_cases(case).into_iter().filter(|c| c.aux.get("layout") == case.aux.get("layout")).collect()
    }
}
