// C12 (key-order slice) -- object iteration/print order and content are
// independent of hash keys, heap layout, insertion order and construction
// route, against a sorted-map reference model.

use crate::engine::{Case, Ctx, Outcome, Property, Violation};
use crate::exec::Status;
use crate::oracle;
use crate::plan::Plan;
use crate::rng::Rng;
use crate::world::World;

pub struct C12;

const WORLD_DIMS: &[&str] = &["rand", "heap_pad", "env_pad", "stack", "malloc_tun", "malloc_mode", "stdout", "env_kind", "locale"];

impl Property for C12 {
    fn id(&self) -> &'static str {
        "C12"
    }
    fn level(&self) -> &'static str {
        "exploration"
    }
    fn runs(&self, tier: &str) -> u64 {
        if tier == "thorough" { 1_000_000 } else { 30_000 }
    }
    fn rule(&self) -> String {
        "case = (W3 object history: 1-3 final maps of 0..40 keys from an alphabet with non-identifiers, empty string, case variants, non-ASCII, numeric-looking keys; each map built twice along independent PRNG insertion orders and routes: literal with overwritten duplicates, incremental o[k]=v / o.k=v with overwrite and op-assign, spread of a partial object, {defaults.., overrides..} double spread, collected rest of a destructuring, shorthand; half of the maps get a third object differing in exactly one key or value, compared repeatedly in both directions, as fresh temporaries in a loop, and again after being mutated back) x (world: hash keys from the PRNG, heap/env padding, stack limit, malloc tunables and allocator behaviour, what stdout is connected to (file, pipe, socket, terminal, append-mode file), environment kind, locale) x (in a third of the cases a plan of invisible I/O events: short/chunked writes, EINTR, chunked script delivery); oracle: stdout equals the byte-ordered sorted-map model (print, for, nested print, reads), `==` between the two constructions prints true and `==`/`!=` against the one-difference variant print false/true every time, stderr empty, exit 0; since the model does not depend on the world or the order, equality in every case implies cross-world and cross-order identity; non-trivial = map has >= 2 keys; distinct = distinct (program, world)".to_string()
    }
    fn assumptions(&self) -> Vec<String> {
        vec![
            "slice: the order-independence clause (the one whose truth depends on hidden process randomness and on which container backs objects); the map-algebra clauses are exercised only as far as W3 needs them".into(),
            "hash keys are controlled through the interposed getrandom (std::collections::hash_map::RandomState)".into(),
        ]
    }
    fn required_probes(&self, _tier: &str) -> Vec<String> {
        vec!["route:literal".into(), "route:incremental-index".into(), "route:incremental-prop".into(), "route:spread".into(), "route:destructure-rest".into(), "route:double-spread".into(), "obs:==-variant".into(), "keys:12+".into(), "obs:for".into(), "obs:print".into()]
    }

    fn gen_case(&self, ctx: &Ctx, worker: usize, rng: &mut Rng, _index: u64) -> Case {
        // aliased-print observations belong to C19's rendering clause, not to C12
        let p = crate::w3::pick_opts(rng, false);
        let mut world = World::random(rng, WORLD_DIMS);
        if world.rand == [0; 16] && rng.chance(3, 4) {
            world.rand = rng.bytes16();
        }
        // a closed stdout swallows the output the model is compared with
        if world.stdout == 3 || world.stdout == 9 {
            world.stdout = 5;
        }
        // a third of the cases under I/O schedules that must be invisible: short and chunked
        // writes, EINTR, chunked delivery of the script
        let plan = if rng.chance(1, 3) {
            let reference = ctx.reference(worker, &p.program);
            oracle::invisible_plan(rng, &reference)
        } else {
            Plan::new()
        };
        Case { label: p.label, program: p.program, aux: p.aux, world, plan }
    }

    fn check(&self, ctx: &Ctx, worker: usize, case: &Case) -> Outcome {
        let mut out = Outcome::default();
        let w3 = crate::w3::build(&case.aux);
        let program = if w3.text == case.program { w3.text.clone() } else { case.program.clone() };
        let shrunk = w3.text != case.program;
        let r = ctx.run(worker, &program, &case.world, &case.plan);
        out.io_events = r.events.len() as u64;
        out.history_shape = r.history_shape();
        out.nontrivial = w3.nkeys >= 2;
        out.fired = oracle::fired_kinds(&case.plan, &r);
        for rt in &w3.routes {
            out.probes.push(format!("route:{rt}"));
        }
        for o in &w3.observations {
            out.probes.push(format!("obs:{o}"));
        }
        let kb = if w3.nkeys >= 12 { "12+" } else if w3.nkeys >= 6 { "6-11" } else if w3.nkeys >= 2 { "2-5" } else { "0-1" };
        out.probes.push(format!("keys:{kb}"));
        for rt in &w3.routes {
            out.cells.push(format!("keys={kb}:route={rt}"));
        }
        if shrunk {
            // a shrunk text has no model: compare against the reference world only
            let reference = ctx.reference(worker, &program);
            if r.stdout != reference.stdout || r.status != reference.status {
                out.violation = Some(Violation {
                    clause: "iteration and printing visit properties in ascending key order whatever the insertion order and process randomness".into(),
                    signature: "object-order".into(),
                    detail: format!("output differs between worlds; world={}", case.world.to_json()),
                    expected: oracle::show(&reference.stdout),
                    observed: oracle::show(&r.stdout),
                });
            }
            return out;
        }
        if r.stdout != w3.stdout || r.status != Status::Exit(0) || !r.stderr.is_empty() {
            out.violation = Some(Violation {
                clause: "iteration and printing visit properties in ascending key order whatever the insertion order and process randomness".into(),
                signature: "object-order".into(),
                detail: format!("transcript differs from the sorted-map model; world={}", case.world.to_json()),
                expected: format!("exit:0 stdout={:?}", oracle::show(&w3.stdout)),
                observed: format!("status={} stdout={:?} stderr={:?}", r.status.render(), oracle::show(&r.stdout), oracle::show(&r.stderr)),
            });
        }
        out
    }
}
