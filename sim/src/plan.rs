// Fault plan: what the shim does to the child's I/O, call by call.
// Mirrors the grammar documented at the top of shim/seedsim_shim.c.

use serde_json::{json, Value as J};

pub const ENOENT: i32 = 2;
pub const EINTR: i32 = 4;
pub const EIO: i32 = 5;
pub const EBADF: i32 = 9;
pub const EAGAIN: i32 = 11;
pub const ENOMEM: i32 = 12;
pub const EACCES: i32 = 13;
pub const ENOTDIR: i32 = 20;
pub const EISDIR: i32 = 21;
pub const ENFILE: i32 = 23;
pub const EMFILE: i32 = 24;
pub const EFBIG: i32 = 27;
pub const ENOSPC: i32 = 28;
pub const EPIPE: i32 = 32;
pub const ENAMETOOLONG: i32 = 36;
pub const ELOOP: i32 = 40;
pub const EDQUOT: i32 = 122;

pub fn errno_name(e: i32) -> &'static str {
    match e {
        ENOENT => "ENOENT",
        EINTR => "EINTR",
        EIO => "EIO",
        EBADF => "EBADF",
        EAGAIN => "EAGAIN",
        ENOMEM => "ENOMEM",
        EACCES => "EACCES",
        ENOTDIR => "ENOTDIR",
        EISDIR => "EISDIR",
        ENFILE => "ENFILE",
        EMFILE => "EMFILE",
        EFBIG => "EFBIG",
        ENOSPC => "ENOSPC",
        EPIPE => "EPIPE",
        ENAMETOOLONG => "ENAMETOOLONG",
        ELOOP => "ELOOP",
        EDQUOT => "EDQUOT",
        _ => "E?",
    }
}

#[derive(Clone, Debug, PartialEq)]
pub enum Act {
    Short(u64),
    Eintr,
    Err(i32),
    PErr(i32),
    Part(u64, i32),
    PPart(u64, i32),
    Erange,
    // write(2) returns 0 for a non-empty buffer: nothing transferred, no errno
    Zero,
}

impl Act {
    pub fn encode(&self) -> String {
        match self {
            Act::Short(k) => format!("short:{k}"),
            Act::Eintr => "eintr".to_string(),
            Act::Err(e) => format!("err:{e}"),
            Act::PErr(e) => format!("perr:{e}"),
            Act::Part(j, e) => format!("part:{j}:{e}"),
            Act::PPart(j, e) => format!("ppart:{j}:{e}"),
            Act::Erange => "erange".to_string(),
            Act::Zero => "zero".to_string(),
        }
    }

    pub fn decode(s: &str) -> Option<Act> {
        let parts: Vec<&str> = s.split(':').collect();
        match parts.as_slice() {
            ["short", k] => Some(Act::Short(k.parse().ok()?)),
            ["eintr"] => Some(Act::Eintr),
            ["erange"] => Some(Act::Erange),
            ["zero"] => Some(Act::Zero),
            ["err", e] => Some(Act::Err(e.parse().ok()?)),
            ["perr", e] => Some(Act::PErr(e.parse().ok()?)),
            ["part", j, e] => Some(Act::Part(j.parse().ok()?, e.parse().ok()?)),
            ["ppart", j, e] => Some(Act::PPart(j.parse().ok()?, e.parse().ok()?)),
            _ => None,
        }
    }

    // A "legal" event must be invisible in the transcript.
    pub fn is_invisible(&self) -> bool {
        matches!(self, Act::Short(_) | Act::Eintr | Act::Erange)
    }
}

#[derive(Clone, Debug, PartialEq)]
pub enum Item {
    // n-th write call on fd
    Write { fd: i32, n: u64, act: Act },
    // n-th read call on the script
    Read { n: u64, act: Act },
    // n-th open of the script
    Open { n: u64, act: Act },
    // n-th getcwd
    Cwd { n: u64, act: Act },
    // every write on fd accepts <= 1 + prng % max bytes
    WChunk { fd: i32, seed: u64, max: u64 },
    // every script read delivers <= 1 + prng % max bytes
    RChunk { seed: u64, max: u64 },
    // size hint reported by statx for the script
    Hint { size: u64 },
    // file type reported for the script: 1 fifo, 2 character device, 3 terminal (size 0, not seekable)
    FType { kind: u8 },
    // FIFO semantics for a descriptor the program made non-blocking: mode 1 = no writer yet
    // (reads return 0), mode 2 = the writer pauses (read n fails with EAGAIN once)
    NbFifo { mode: u8, n: u64 },
    // script delivery stops after k bytes
    Eof { k: u64 },
    // stored byte at off replaced by bytes
    Flip { off: u64, bytes: Vec<u8> },
    // the process is killed at event seq
    Kill { seq: u64 },
}

impl Item {
    pub fn encode(&self) -> String {
        match self {
            Item::Write { fd, n, act } => format!("w={fd}:{n}:{}", act.encode()),
            Item::Read { n, act } => format!("r={n}:{}", act.encode()),
            Item::Open { n, act } => format!("o={n}:{}", act.encode()),
            Item::Cwd { n, act } => format!("c={n}:{}", act.encode()),
            Item::WChunk { fd, seed, max } => format!("wchunk={fd}:{seed}:{max}"),
            Item::RChunk { seed, max } => format!("rchunk={seed}:{max}"),
            Item::Hint { size } => format!("hint={size}"),
            Item::FType { kind } => format!("ftype={}", match *kind { 2 => "chr", 3 => "tty", _ => "fifo" }),
            Item::NbFifo { mode, n } => if *mode == 1 { "nb=late".to_string() } else { format!("nb=slow:{n}") },
            Item::Eof { k } => format!("eof={k}"),
            Item::Flip { off, bytes } => format!("flip={off}:{}", hex(bytes)),
            Item::Kill { seq } => format!("kill={seq}"),
        }
    }

    pub fn decode(s: &str) -> Option<Item> {
        let (key, val) = s.split_once('=')?;
        match key {
            "w" => {
                let mut it = val.splitn(3, ':');
                let fd = it.next()?.parse().ok()?;
                let n = it.next()?.parse().ok()?;
                let act = Act::decode(it.next()?)?;
                Some(Item::Write { fd, n, act })
            }
            "r" | "o" | "c" => {
                let (n, a) = val.split_once(':')?;
                let n = n.parse().ok()?;
                let act = Act::decode(a)?;
                Some(match key {
                    "r" => Item::Read { n, act },
                    "o" => Item::Open { n, act },
                    _ => Item::Cwd { n, act },
                })
            }
            "wchunk" => {
                let mut it = val.splitn(3, ':');
                Some(Item::WChunk {
                    fd: it.next()?.parse().ok()?,
                    seed: it.next()?.parse().ok()?,
                    max: it.next()?.parse().ok()?,
                })
            }
            "rchunk" => {
                let (a, b) = val.split_once(':')?;
                Some(Item::RChunk { seed: a.parse().ok()?, max: b.parse().ok()? })
            }
            "hint" => Some(Item::Hint { size: val.parse().ok()? }),
            "ftype" => Some(Item::FType { kind: match val { "chr" => 2, "tty" => 3, _ => 1 } }),
            "nb" => {
                if val == "late" {
                    Some(Item::NbFifo { mode: 1, n: 0 })
                } else {
                    Some(Item::NbFifo { mode: 2, n: val.strip_prefix("slow:")?.parse().ok()? })
                }
            }
            "eof" => Some(Item::Eof { k: val.parse().ok()? }),
            "flip" => {
                let (a, b) = val.split_once(':')?;
                Some(Item::Flip { off: a.parse().ok()?, bytes: unhex(b)? })
            }
            "kill" => Some(Item::Kill { seq: val.parse().ok()? }),
            _ => None,
        }
    }

    pub fn is_invisible(&self) -> bool {
        match self {
            Item::Write { act, .. } | Item::Read { act, .. } | Item::Open { act, .. } | Item::Cwd { act, .. } => {
                act.is_invisible()
            }
            Item::WChunk { .. } | Item::RChunk { .. } | Item::Hint { .. } | Item::FType { .. } | Item::NbFifo { .. } => true,
            Item::Eof { .. } | Item::Flip { .. } | Item::Kill { .. } => false,
        }
    }

    pub fn kind_name(&self) -> String {
        match self {
            Item::Write { fd, act, .. } => format!("write{fd}-{}", act_kind(act)),
            Item::Read { act, .. } => format!("read-{}", act_kind(act)),
            Item::Open { act, .. } => format!("open-{}", act_kind(act)),
            Item::Cwd { act, .. } => format!("cwd-{}", act_kind(act)),
            Item::WChunk { fd, .. } => format!("wchunk{fd}"),
            Item::RChunk { .. } => "rchunk".to_string(),
            Item::Hint { .. } => "size-hint".to_string(),
            Item::FType { .. } => "file-type".to_string(),
            Item::NbFifo { .. } => "nonblocking-fifo".to_string(),
            Item::Eof { .. } => "eof-early".to_string(),
            Item::Flip { .. } => "flip".to_string(),
            Item::Kill { .. } => "kill".to_string(),
        }
    }
}

fn act_kind(a: &Act) -> String {
    match a {
        Act::Short(_) => "short".to_string(),
        Act::Eintr => "eintr".to_string(),
        Act::Err(e) => format!("err-{}", errno_name(*e)),
        Act::PErr(e) => format!("perr-{}", errno_name(*e)),
        Act::Part(_, e) => format!("part-{}", errno_name(*e)),
        Act::PPart(_, e) => format!("ppart-{}", errno_name(*e)),
        Act::Erange => "erange".to_string(),
        Act::Zero => "zero".to_string(),
    }
}

#[derive(Clone, Debug, Default, PartialEq)]
pub struct Plan {
    pub items: Vec<Item>,
}

impl Plan {
    pub fn new() -> Plan {
        Plan { items: vec![] }
    }

    pub fn encode_items(&self) -> String {
        self.items.iter().map(Item::encode).collect::<Vec<_>>().join(";")
    }

    pub fn to_json(&self) -> J {
        json!(self.items.iter().map(Item::encode).collect::<Vec<_>>())
    }

    pub fn from_json(j: &J) -> Option<Plan> {
        let mut items = vec![];
        for s in j.as_array()? {
            items.push(Item::decode(s.as_str()?)?);
        }
        Some(Plan { items })
    }

    pub fn all_invisible(&self) -> bool {
        self.items.iter().all(Item::is_invisible)
    }
}

pub fn hex(b: &[u8]) -> String {
    let mut s = String::with_capacity(b.len() * 2);
    for x in b {
        s.push_str(&format!("{x:02x}"));
    }
    s
}

pub fn unhex(s: &str) -> Option<Vec<u8>> {
    let b = s.as_bytes();
    if b.len() % 2 != 0 {
        return None;
    }
    let mut out = Vec::with_capacity(b.len() / 2);
    for i in (0..b.len()).step_by(2) {
        let h = (b[i] as char).to_digit(16)?;
        let l = (b[i + 1] as char).to_digit(16)?;
        out.push((h * 16 + l) as u8);
    }
    Some(out)
}
