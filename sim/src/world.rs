// World model: everything outside the script text that a run of `seed` can
// observe.  `World::reference()` is w0; `World::random()` changes a random
// subset of dimensions (swarm style).

use crate::rng::Rng;
use serde_json::{json, Value as J};

#[derive(Clone, Debug, PartialEq)]
pub struct World {
    pub rand: [u8; 16],
    pub heap_pad: u64,
    pub env_pad: u64,
    pub stack: u8,       // 0 inherit, 1 16MiB, 2 64MiB, 3 unlimited
    pub malloc_tun: bool,
    pub cwd_name: u8,    // 0 d0, 1 space, 2 unicode, 3 long, 4 very long (>512 bytes), 5 not valid UTF-8
    pub rel: u8,         // 0 script in cwd, 1 in sub dir, 2 in parent dir
    pub file_name: u8,   // 0 a.sd, 1 space, 2 unicode, 3 no extension, 4 non-UTF-8 bytes, 5 a file named `-`
    pub spelling: u8,    // 0 plain, 1 ./, 2 .//, 3 detour zz/../, 4 absolute, 5 symlinked dir, 6 symlink to file, 12 `symlink/../name` with a same-named decoy in cwd, 13 /dev/stdin and 14 /proc/self/fd/0 with stdin open on the script, 15 /dev/stdin with the script unlinked after opening, 16 forty `../` in front of the absolute path; fault spellings (set explicitly): 7 trailing slash, 8 directory, 9 symlink loop, 10 missing, 11 longer than PATH_MAX
    pub argv0: u8,       // 0 exe path, 1 "seed", 2 "./odd name"
    pub env_kind: u8,    // 0 minimal, 1 typical, 2 junk
    pub locale: u8,      // 0 unset, 1 C, 2 en_US.UTF-8, 3 tr_TR.UTF-8, 4 nonsense
    pub rust_backtrace: u8, // 0 unset, 1 "0", 2 "1", 3 "full"
    pub stdin: u8,       // 0 /dev/null, 1 closed, 2 pipe with pending data, 3 regular file, 4 pty
    pub stdout: u8,      // 0 file, 1 pipe, 2 /dev/null, 3 closed, 4 socket, 5 pty (raw), 6 pipe without reader (fault worlds only), 7 /dev/full (fault worlds only), 8 regular file opened with O_APPEND, 9 open read-only (writes fail with EBADF, which std swallows like a closed descriptor)
    pub stderr: u8,
    pub merged: bool,    // 2>&1 on one open file description (stdout's sink)
    pub decoys: bool,
    pub clock: u64,      // seconds reported by the simulated clock (0 = reference value)
    pub pid: u32,        // value reported by getpid (0 = reference value)
    pub clock_step_ms: u64, // simulated time passing per clock read (0 = 1 ms); large = clock jumps
    pub env_bytes: u8,   // 0 none, 1 value not UTF-8, 2 name not UTF-8, 3 LANG/LC_ALL not UTF-8, 4 entry without '=', 5 empty name, 6 several of these
    pub sig: u8,         // inherited signal state: 0 as the simulator (SIGPIPE ignored), 1 SIGPIPE default, 2 INT/TERM/HUP/PIPE/QUIT ignored, 3 all blockable signals blocked
    pub umask: u8,       // 0 022, 1 000, 2 077, 3 777
    pub fds: u8,         // 0 none, 1 fds 3..19 open on /dev/null, 2 fds 3..99 open
    pub script_mode: u8, // 0 0644 now, 1 0400, 2 0755, 3 0644 with mtime 1970, 4 0644 with mtime 2100
    pub uid: u8,         // 0 as the simulator (root), 1 nobody (65534:65534)
    pub malloc_mode: u8, // allocator behaviour: 0 default, 1 tcache off (freed chunks are not handed straight back), 2 freed/fresh memory filled with a pattern, 3 both
    pub flock: bool,     // an exclusive flock(2) on the script is held by the simulator during the run
    pub rlimit: u8,      // resource limits far above what any explored script needs: 0 none, 1 RLIMIT_AS 192 MiB, 2 RLIMIT_AS 1 GiB, 3 RLIMIT_CPU 60 s, 4 RLIMIT_NOFILE 260, 5 RLIMIT_FSIZE 64 MiB, 6 RLIMIT_DATA 128 MiB, 7 CPU affinity narrowed to one CPU
    // directed dimensions: environment variables / relative files the program was seen asking for
    pub extra_env: Vec<(String, String)>,
    pub extra_files: Vec<(String, String)>,
}

pub const DIMS: &[&str] = &[
    "rand", "heap_pad", "env_pad", "stack", "malloc_tun", "cwd_name", "rel", "file_name", "spelling", "argv0",
    "env_kind", "locale", "rust_backtrace", "stdin", "stdout", "stderr", "merged", "decoys", "clock", "pid", "extra_env", "extra_files",
    "env_bytes", "sig", "umask", "fds", "script_mode", "uid", "rlimit", "malloc_mode", "flock",
];

impl World {
    pub fn reference() -> World {
        World {
            rand: [0; 16],
            heap_pad: 0,
            env_pad: 0,
            stack: 0,
            malloc_tun: false,
            cwd_name: 0,
            rel: 0,
            file_name: 0,
            spelling: 0,
            argv0: 0,
            env_kind: 0,
            locale: 0,
            rust_backtrace: 0,
            stdin: 0,
            stdout: 0,
            stderr: 0,
            merged: false,
            decoys: false,
            clock: 0,
            pid: 0,
            clock_step_ms: 0,
            env_bytes: 0,
            sig: 0,
            umask: 0,
            fds: 0,
            script_mode: 0,
            uid: 0,
            rlimit: 0,
            flock: false,
            malloc_mode: 0,
            extra_env: vec![],
            extra_files: vec![],
        }
    }

    // Change dimension `d` (index into DIMS) to a random non-reference value.
    pub fn randomize_dim(&mut self, d: usize, rng: &mut Rng) {
        match DIMS[d] {
            "rand" => self.rand = rng.bytes16(),
            "heap_pad" => self.heap_pad = [16, 4096, 65_536, 1_048_576, 1 + rng.below(200_000)][rng.usize_below(5)],
            "env_pad" => self.env_pad = [1, 100, 4000, 8000, 1 + rng.below(8000)][rng.usize_below(5)],
            "stack" => self.stack = 1 + rng.below(3) as u8,
            "malloc_tun" => self.malloc_tun = true,
            "cwd_name" => self.cwd_name = 1 + rng.below(5) as u8,
            "rel" => self.rel = 1 + rng.below(2) as u8,
            "file_name" => self.file_name = [1, 2, 3, 5][rng.usize_below(4)],
            "spelling" => self.spelling = [1, 2, 3, 4, 5, 6, 12, 13, 14, 15, 16, 17][rng.usize_below(12)],
            "argv0" => self.argv0 = 1 + rng.below(2) as u8,
            "env_kind" => self.env_kind = 1 + rng.below(2) as u8,
            "locale" => self.locale = 1 + rng.below(4) as u8,
            "rust_backtrace" => self.rust_backtrace = 1 + rng.below(3) as u8,
            "stdin" => self.stdin = 1 + rng.below(4) as u8,
            "env_bytes" => self.env_bytes = 1 + rng.below(6) as u8,
            "sig" => self.sig = 1 + rng.below(3) as u8,
            "umask" => self.umask = 1 + rng.below(3) as u8,
            "fds" => self.fds = 1 + rng.below(2) as u8,
            "script_mode" => self.script_mode = 1 + rng.below(4) as u8,
            "uid" => self.uid = 1,
            "rlimit" => self.rlimit = 1 + rng.below(7) as u8,
            "malloc_mode" => self.malloc_mode = 1 + rng.below(3) as u8,
            "flock" => self.flock = true,
            "stdout" => self.stdout = [1, 2, 3, 4, 5, 8, 9][rng.usize_below(7)],
            "stderr" => self.stderr = [1, 2, 3, 4, 5, 8, 9][rng.usize_below(7)],
            "merged" => self.merged = true,
            "decoys" => self.decoys = true,
            "clock" => {
                self.clock = [1, 946_684_800, 2_000_000_000, 4_102_444_800, 1 + rng.below(4_000_000_000)][rng.usize_below(5)];
                self.clock_step_ms = [0, 0, 1000, 3_600_000, 86_400_000][rng.usize_below(5)];
            }
            "pid" => self.pid = [1, 2, 99_999, 4_194_303, 1 + rng.below(4_000_000) as u32][rng.usize_below(5)],
            _ => {}
        }
    }

    pub fn reset_dim(&mut self, d: usize) {
        let r = World::reference();
        match DIMS[d] {
            "rand" => self.rand = r.rand,
            "heap_pad" => self.heap_pad = r.heap_pad,
            "env_pad" => self.env_pad = r.env_pad,
            "stack" => self.stack = r.stack,
            "malloc_tun" => self.malloc_tun = r.malloc_tun,
            "cwd_name" => self.cwd_name = r.cwd_name,
            "rel" => self.rel = r.rel,
            "file_name" => self.file_name = r.file_name,
            "spelling" => self.spelling = r.spelling,
            "argv0" => self.argv0 = r.argv0,
            "env_kind" => self.env_kind = r.env_kind,
            "locale" => self.locale = r.locale,
            "rust_backtrace" => self.rust_backtrace = r.rust_backtrace,
            "stdin" => self.stdin = r.stdin,
            "stdout" => self.stdout = r.stdout,
            "stderr" => self.stderr = r.stderr,
            "merged" => self.merged = r.merged,
            "decoys" => self.decoys = r.decoys,
            "clock" => {
                self.clock = r.clock;
                self.clock_step_ms = r.clock_step_ms;
            }
            "pid" => self.pid = r.pid,
            "env_bytes" => self.env_bytes = 0,
            "sig" => self.sig = 0,
            "umask" => self.umask = 0,
            "fds" => self.fds = 0,
            "script_mode" => self.script_mode = 0,
            "uid" => self.uid = 0,
            "rlimit" => self.rlimit = 0,
            "malloc_mode" => self.malloc_mode = 0,
            "flock" => self.flock = false,
            "extra_env" => self.extra_env = vec![],
            "extra_files" => self.extra_files = vec![],
            _ => {}
        }
    }

    pub fn dim_value(&self, d: usize) -> String {
        match DIMS[d] {
            "rand" => if self.rand == [0; 16] { "0".into() } else { "x".into() },
            "heap_pad" => bucket(self.heap_pad),
            "env_pad" => bucket(self.env_pad),
            "stack" => self.stack.to_string(),
            "malloc_tun" => (self.malloc_tun as u8).to_string(),
            "cwd_name" => self.cwd_name.to_string(),
            "rel" => self.rel.to_string(),
            "file_name" => self.file_name.to_string(),
            "spelling" => self.spelling.to_string(),
            "argv0" => self.argv0.to_string(),
            "env_kind" => self.env_kind.to_string(),
            "locale" => self.locale.to_string(),
            "rust_backtrace" => self.rust_backtrace.to_string(),
            "stdin" => self.stdin.to_string(),
            "stdout" => self.stdout.to_string(),
            "stderr" => self.stderr.to_string(),
            "merged" => (self.merged as u8).to_string(),
            "decoys" => (self.decoys as u8).to_string(),
            "clock" => bucket(self.clock),
            "pid" => bucket(u64::from(self.pid)),
            "env_bytes" => self.env_bytes.to_string(),
            "sig" => self.sig.to_string(),
            "umask" => self.umask.to_string(),
            "fds" => self.fds.to_string(),
            "script_mode" => self.script_mode.to_string(),
            "uid" => self.uid.to_string(),
            "rlimit" => self.rlimit.to_string(),
            "malloc_mode" => self.malloc_mode.to_string(),
            "flock" => (self.flock as u8).to_string(),
            "extra_env" => self.extra_env.len().min(3).to_string(),
            "extra_files" => self.extra_files.len().min(3).to_string(),
            _ => String::new(),
        }
    }

    // number of distinct non-reference values `dim_value` can report for dimension d
    pub fn dim_cardinality(d: usize) -> u64 {
        match DIMS[d] {
            "rand" | "malloc_tun" | "merged" | "decoys" | "uid" | "flock" => 1,
            "heap_pad" | "stack" | "rust_backtrace" | "pid" | "sig" | "umask" | "malloc_mode" => 3,
            "file_name" => 4,
            "env_pad" | "rel" | "argv0" | "env_kind" | "clock" | "fds" => 2,
            "locale" | "stdin" | "script_mode" => 4,
            "cwd_name" => 5,
            "stdout" | "stderr" => 7,
            "env_bytes" => 6,
            "rlimit" => 7,
            "spelling" => 12,
            _ => 0,
        }
    }

    pub fn differs_from_reference(&self, d: usize) -> bool {
        let mut r = self.clone();
        r.reset_dim(d);
        r != *self
    }

    // Swarm: each run varies a random subset (1..all) of the dimensions in
    // `allowed`.
    pub fn random(rng: &mut Rng, allowed: &[&str]) -> World {
        let mut w = World::reference();
        let idx: Vec<usize> = (0..DIMS.len()).filter(|d| allowed.contains(&DIMS[*d])).collect();
        if idx.is_empty() {
            return w;
        }
        let mode = rng.below(10);
        let k = if mode < 4 { 1 } else if mode < 7 { 2 + rng.usize_below(3) } else { 1 + rng.usize_below(idx.len()) };
        let mut order = idx.clone();
        rng.shuffle(&mut order);
        for d in order.into_iter().take(k) {
            w.randomize_dim(d, rng);
        }
        w.normalize();
        w
    }

    // Remove combinations that make no sense.
    pub fn normalize(&mut self) {
        // bytes that are not valid UTF-8 in argv[1] are echoed lossily (fix 5476666): that is
        // C02's world (file_name 4); everywhere else a non-UTF-8 cwd is combined with
        // spellings that keep it out of argv[1]
        if self.cwd_name == 5 && (self.spelling == 4 || self.spelling == 16) {
            self.spelling = 1;
        }
        // a script readable by its owner only cannot be read by another user: not a
        // world in which the same script "runs"
        if self.uid != 0 && self.script_mode == 1 {
            self.script_mode = 2;
        }
        if self.merged {
            // 2>&1: stderr follows stdout's sink; closed/devnull lose the merge
            if self.stdout == 3 || self.stdout == 9 {
                self.stdout = 0;
            }
            self.stderr = self.stdout;
        }
    }

    pub fn to_json(&self) -> J {
        json!({
            "rand": crate::plan::hex(&self.rand),
            "heap_pad": self.heap_pad, "env_pad": self.env_pad, "stack": self.stack,
            "malloc_tun": self.malloc_tun, "cwd_name": self.cwd_name, "rel": self.rel,
            "file_name": self.file_name, "spelling": self.spelling, "argv0": self.argv0,
            "env_kind": self.env_kind, "locale": self.locale, "rust_backtrace": self.rust_backtrace,
            "stdin": self.stdin, "stdout": self.stdout, "stderr": self.stderr,
            "merged": self.merged, "decoys": self.decoys,
            "clock": self.clock, "pid": self.pid, "clock_step_ms": self.clock_step_ms,
            "env_bytes": self.env_bytes, "sig": self.sig, "umask": self.umask, "fds": self.fds, "script_mode": self.script_mode, "uid": self.uid, "rlimit": self.rlimit, "malloc_mode": self.malloc_mode, "flock": self.flock,
            "extra_env": self.extra_env.iter().map(|(k, v)| json!([k, v])).collect::<Vec<_>>(),
            "extra_files": self.extra_files.iter().map(|(k, v)| json!([k, v])).collect::<Vec<_>>(),
        })
    }

    pub fn from_json(j: &J) -> Option<World> {
        let mut w = World::reference();
        let r = crate::plan::unhex(j.get("rand")?.as_str()?)?;
        if r.len() != 16 {
            return None;
        }
        w.rand.copy_from_slice(&r);
        let u = |k: &str| j.get(k).and_then(J::as_u64);
        let b = |k: &str| j.get(k).and_then(J::as_bool);
        w.heap_pad = u("heap_pad")?;
        w.env_pad = u("env_pad")?;
        w.stack = u("stack")? as u8;
        w.malloc_tun = b("malloc_tun")?;
        w.cwd_name = u("cwd_name")? as u8;
        w.rel = u("rel")? as u8;
        w.file_name = u("file_name")? as u8;
        w.spelling = u("spelling")? as u8;
        w.argv0 = u("argv0")? as u8;
        w.env_kind = u("env_kind")? as u8;
        w.locale = u("locale")? as u8;
        w.rust_backtrace = u("rust_backtrace")? as u8;
        w.stdin = u("stdin")? as u8;
        w.stdout = u("stdout")? as u8;
        w.stderr = u("stderr")? as u8;
        w.merged = b("merged")?;
        w.decoys = b("decoys")?;
        w.clock = u("clock").unwrap_or(0);
        w.pid = u("pid").unwrap_or(0) as u32;
        w.clock_step_ms = u("clock_step_ms").unwrap_or(0);
        w.env_bytes = u("env_bytes").unwrap_or(0) as u8;
        w.sig = u("sig").unwrap_or(0) as u8;
        w.umask = u("umask").unwrap_or(0) as u8;
        w.fds = u("fds").unwrap_or(0) as u8;
        w.script_mode = u("script_mode").unwrap_or(0) as u8;
        w.uid = u("uid").unwrap_or(0) as u8;
        w.rlimit = u("rlimit").unwrap_or(0) as u8;
        w.malloc_mode = u("malloc_mode").unwrap_or(0) as u8;
        w.flock = b("flock").unwrap_or(false);
        let pairs = |k: &str| -> Vec<(String, String)> {
            j.get(k).and_then(J::as_array).map(|a| a.iter().filter_map(|x| Some((x.get(0)?.as_str()?.to_string(), x.get(1)?.as_str()?.to_string()))).collect()).unwrap_or_default()
        };
        w.extra_env = pairs("extra_env");
        w.extra_files = pairs("extra_files");
        Some(w)
    }
}

fn bucket(v: u64) -> String {
    if v == 0 {
        "0".into()
    } else if v < 1000 {
        "s".into()
    } else if v < 100_000 {
        "m".into()
    } else {
        "l".into()
    }
}
