// Replay files: everything the child needs is in the file, so re-executing it
// in a fresh process reproduces the violation exactly.

use crate::engine::{Case, Ctx, Property, Violation};
use serde_json::{json, Value as J};
use std::path::PathBuf;

pub fn write_replay(ctx: &Ctx, prop: &str, index: u64, min_case: &Case, v: &Violation, orig: &Case) -> PathBuf {
    let dir = crate::engine::out_dir(ctx).join("replays").join(prop);
    let _ = std::fs::create_dir_all(&dir);
    let path = dir.join(format!("{}-{}.json", ctx.seed, index));
    // event log of the minimised case, for the reader
    // embed the reference model so that the file replays independently of the generator version
    let mut min_case = min_case.clone();
    if min_case.label.starts_with("W2") && min_case.aux.get("model").is_none() {
        let m = crate::w2::build(&min_case.aux);
        if m.text == min_case.program {
            min_case.aux["model"] = m.to_json();
        }
    }
    if min_case.label.starts_with("W3") && min_case.aux.get("model_stdout_hex").is_none() {
        let m = crate::w3::build(&min_case.aux);
        if m.text == min_case.program {
            min_case.aux["model_stdout_hex"] = serde_json::json!(crate::plan::hex(&m.stdout));
            min_case.aux["model_nkeys"] = serde_json::json!(m.nkeys);
            min_case.aux["model_program_hex"] = serde_json::json!(crate::plan::hex(&m.text));
        }
    }
    let min_case = &min_case;
    let r = ctx.run(0, &min_case.program, &min_case.world, &min_case.plan);
    let events: Vec<String> = r.events.iter().map(|e| e.render()).collect();
    let j = json!({
        "property": prop,
        "verif_seed": ctx.seed,
        "run_index": index,
        "clause": v.clause,
        "signature": v.signature,
        "detail": v.detail,
        "expected": v.expected,
        "observed": v.observed,
        "case": min_case.to_json(),
        "original_case": orig.to_json(),
        "event_log": events,
        "status": r.status.render(),
        "stdout": String::from_utf8_lossy(&r.stdout),
        "stderr": String::from_utf8_lossy(&r.stderr),
        "replay_cmd": format!("/verif/check replay {}", path.display()),
    });
    std::fs::write(&path, serde_json::to_string_pretty(&j).unwrap()).expect("cannot write replay file");
    path
}

pub fn replay(ctx: &Ctx, props: &[Box<dyn Property>], file: &str) -> i32 {
    let text = match std::fs::read_to_string(file) {
        Ok(t) => t,
        Err(e) => {
            eprintln!("HARNESS-ERROR: cannot read replay file {file}: {e}");
            return 2;
        }
    };
    let j: J = match serde_json::from_str(&text) {
        Ok(j) => j,
        Err(e) => {
            eprintln!("HARNESS-ERROR: bad replay file: {e}");
            return 2;
        }
    };
    let pid = j.get("property").and_then(J::as_str).unwrap_or("");
    let prop = match props.iter().find(|p| p.id() == pid) {
        Some(p) => p,
        None => {
            eprintln!("HARNESS-ERROR: unknown property {pid}");
            return 2;
        }
    };
    let case = match j.get("case").and_then(Case::from_json) {
        Some(c) => c,
        None => {
            eprintln!("HARNESS-ERROR: replay file has no usable case");
            return 2;
        }
    };
    let out = prop.check(ctx, 0, &case);
    match out.violation {
        Some(v) => {
            println!("VIOLATION property={} replay={}", pid, file);
            println!("  clause: {}", v.clause);
            println!("  detail: {}", v.detail);
            println!("  expected: {}", v.expected);
            println!("  observed: {}", v.observed);
            1
        }
        None => {
            println!("replay: property={pid} held on the recorded case (no violation reproduced)");
            0
        }
    }
}
