// Minimisation: shrink world, fault plan and program while the *same clause*
// stays violated.  Budget-bounded; every candidate is a real re-execution.

use crate::engine::{Case, Ctx, Property, Violation};
use crate::plan::{Item, Plan};
use crate::world::DIMS;

const BUDGET: usize = 300;

fn still(ctx: &Ctx, prop: &dyn Property, cand: &Case, clause: &str, budget: &mut usize) -> Option<Violation> {
    if *budget == 0 {
        return None;
    }
    *budget -= 1;
    let out = prop.check(ctx, 0, cand);
    match out.violation {
        Some(v) if v.clause == clause => Some(v),
        _ => None,
    }
}

fn lower_indices(plan: &Plan) -> Vec<Plan> {
    let mut out = vec![];
    for (i, it) in plan.items.iter().enumerate() {
        let lowered: Vec<Item> = match it {
            Item::Write { fd, n, act } if *n > 0 => {
                vec![Item::Write { fd: *fd, n: 0, act: act.clone() }, Item::Write { fd: *fd, n: n / 2, act: act.clone() }, Item::Write { fd: *fd, n: n - 1, act: act.clone() }]
            }
            Item::Read { n, act } if *n > 0 => vec![Item::Read { n: 0, act: act.clone() }, Item::Read { n: n - 1, act: act.clone() }],
            Item::Eof { k } if *k > 0 => vec![Item::Eof { k: k / 2 }, Item::Eof { k: k - 1 }],
            Item::WChunk { fd, seed, max } if *max > 1 => vec![Item::WChunk { fd: *fd, seed: *seed, max: 1 }],
            Item::RChunk { seed, max } if *max > 1 => vec![Item::RChunk { seed: *seed, max: 1 }],
            _ => vec![],
        };
        for l in lowered {
            let mut p = plan.clone();
            p.items[i] = l;
            out.push(p);
        }
    }
    out
}

pub fn minimise(ctx: &Ctx, prop: &dyn Property, case: &Case, v: &Violation) -> (Case, Violation) {
    let mut cur = case.clone();
    let mut curv = v.clone();
    // a hanging candidate costs two watchdog periods: keep the budget small for hangs
    let is_hang = v.detail.contains("status=hang") || v.observed.contains("status=hang");
    let mut budget = if is_hang { 10 } else { BUDGET };
    let clause = v.clause.clone();
    let mut progress = true;
    while progress && budget > 0 {
        progress = false;
        // 1. world dimensions back to w0, one at a time
        for d in 0..DIMS.len() {
            if !cur.world.differs_from_reference(d) {
                continue;
            }
            let mut c = cur.clone();
            c.world.reset_dim(d);
            c.world.normalize();
            if c.world == cur.world {
                continue;
            }
            if let Some(nv) = still(ctx, prop, &c, &clause, &mut budget) {
                cur = c;
                curv = nv;
                progress = true;
            }
        }
        // 2. drop fault items
        let mut i = 0;
        while i < cur.plan.items.len() {
            let mut c = cur.clone();
            c.plan.items.remove(i);
            if let Some(nv) = still(ctx, prop, &c, &clause, &mut budget) {
                cur = c;
                curv = nv;
                progress = true;
            } else {
                i += 1;
            }
        }
        // 3. lower fault indices
        for p in lower_indices(&cur.plan) {
            let mut c = cur.clone();
            c.plan = p;
            if let Some(nv) = still(ctx, prop, &c, &clause, &mut budget) {
                cur = c;
                curv = nv;
                progress = true;
                break;
            }
        }
        // 4. program-level shrinking offered by the property
        for c in prop.shrink(ctx, &cur) {
            if let Some(nv) = still(ctx, prop, &c, &clause, &mut budget) {
                cur = c;
                curv = nv;
                progress = true;
                break;
            }
        }
    }
    (cur, curv)
}

// Generic line-level shrink candidates for text programs (W1/W4): remove one
// chunk of lines at a time (ddmin-style granularity halving).
pub fn line_candidates(program: &[u8]) -> Vec<Vec<u8>> {
    let lines: Vec<&[u8]> = program.split_inclusive(|b| *b == b'\n').collect();
    let n = lines.len();
    let mut out = vec![];
    if n <= 1 {
        return out;
    }
    let mut chunk = n / 2;
    while chunk >= 1 {
        let mut start = 0;
        while start < n {
            let end = (start + chunk).min(n);
            let mut p = vec![];
            for (i, l) in lines.iter().enumerate() {
                if i < start || i >= end {
                    p.extend_from_slice(l);
                }
            }
            out.push(p);
            start = end;
        }
        if chunk == 1 {
            break;
        }
        chunk /= 2;
    }
    out.truncate(60);
    out
}
