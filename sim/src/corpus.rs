// W1: the scripts of the integration suite, parsed out of
// /repo/tests/stdout/*.test|*.xtest (same format build.rs reads).  Only the
// script text is used; expectations recorded in the files are ignored.

use std::fs;
use std::path::Path;

#[derive(Clone, Debug)]
pub struct Script {
    pub name: String,
    pub src: Vec<u8>,
}

const MARK: &str = "==================================================";
const SECT: &str = "--------------------------------------------------";

pub fn load(dir: &Path) -> Vec<Script> {
    let mut out = vec![];
    let mut entries: Vec<_> = match fs::read_dir(dir) {
        Ok(r) => r.filter_map(Result::ok).map(|e| e.path()).collect(),
        Err(_) => return out,
    };
    entries.sort();
    for p in entries {
        let ext = p.extension().and_then(|e| e.to_str()).unwrap_or("").to_string();
        if ext != "test" && ext != "xtest" {
            continue;
        }
        let extended = ext == "xtest";
        let stem = p.file_stem().and_then(|s| s.to_str()).unwrap_or("x").to_string();
        let text = match fs::read_to_string(&p) {
            Ok(t) => t,
            Err(_) => continue,
        };
        let mut cur: Option<Script> = None;
        let mut section = 0;
        for line in text.lines() {
            if let Some(suf) = line.strip_prefix(MARK) {
                if let Some(s) = cur.take() {
                    out.push(s);
                }
                let name = suf.trim();
                if name.is_empty() {
                    break;
                }
                cur = Some(Script { name: format!("{stem}::{name}"), src: vec![] });
                section = 0;
                continue;
            }
            if line == SECT {
                section += 1;
                continue;
            }
            let src_section = if extended { 1 } else { 0 };
            if section == src_section {
                if let Some(s) = cur.as_mut() {
                    s.src.extend_from_slice(line.as_bytes());
                    s.src.push(b'\n');
                }
            }
        }
        if let Some(s) = cur.take() {
            out.push(s);
        }
    }
    out
}
