// W2 layout printer: renders a Prog as text under a seeded random layout and
// records the true position (line, column in characters) of the first token
// of every call node, by the rule of C18's statement.  Shares no code with
// the scanner of /repo.

use super::ir::*;
use crate::rng::Rng;
use std::collections::{BTreeMap, BTreeSet};

#[derive(Clone, Debug)]
pub struct Layout {
    pub enabled: bool,
    pub crlf: bool,
    pub tabs: bool,
    pub comments: bool,
    pub breaks: bool,
    pub blanks: bool,
    pub semis: bool,
    pub lead: bool,
    pub rawnl: bool,
}

impl Layout {
    pub fn plain() -> Layout {
        Layout { enabled: false, crlf: false, tabs: false, comments: false, breaks: false, blanks: false, semis: false, lead: false, rawnl: false }
    }
    pub fn random(rng: &mut Rng) -> Layout {
        Layout {
            enabled: true,
            crlf: rng.chance(1, 4),
            tabs: rng.chance(1, 2),
            comments: rng.chance(1, 2),
            breaks: rng.chance(1, 2),
            blanks: rng.chance(1, 2),
            semis: rng.chance(1, 3),
            lead: rng.chance(1, 4),
            rawnl: rng.chance(1, 2),
        }
    }
}

#[derive(Clone, Debug)]
pub struct Space {
    pub off: u64,
    pub line: u64,
    pub col: u64,
    pub after_first_print: bool,
    pub top_stmt: usize,
    // not inside (), [] or an object literal/pattern: a `,` here can never be legal
    pub stmt_level: bool,
    // byte length of the token that follows this space
    pub next_len: u32,
}

pub struct Printer<'a> {
    prog: &'a Prog,
    names: &'a BTreeMap<usize, String>,
    removed: &'a BTreeSet<usize>,
    rng: Rng,
    lay: Layout,
    pub out: String,
    line: u64,
    col: u64, // characters emitted since the last newline
    pending: Vec<NodeId>,
    pub pos: Vec<Option<(u64, u64)>>,
    pub tok_off: Vec<Option<u64>>,
    pub feats: Vec<Vec<String>>,
    pub spaces: Vec<Space>,
    prev_word: bool,
    prev_cont: bool,
    at_line_start: bool,
    indent: usize,
    line_feats: BTreeSet<String>,
    global_feats: BTreeSet<String>,
    cur_top: usize,
    in_slot: bool,
    no_flip: BTreeSet<NodeId>,
    pending_op: Option<NodeId>,
    // open brackets: true = item context ((), [], object braces), false = block braces
    brackets: Vec<bool>,
    next_brace_is_object: bool,
    spaces_mark: usize,
}

const COMMENTS: &[&str] = &["# note", "# ünï ✓ cömment", "#", "# print(\"not code\") @ ~", "#\ttabbed # twice"];

impl<'a> Printer<'a> {
    pub fn new(prog: &'a Prog, names: &'a BTreeMap<usize, String>, removed: &'a BTreeSet<usize>, rng: Rng, lay: Layout) -> Printer<'a> {
        Printer {
            prog,
            names,
            removed,
            rng,
            lay,
            out: String::new(),
            line: 1,
            col: 0,
            pending: vec![],
            pos: vec![None; prog.n_nodes],
            tok_off: vec![None; prog.n_nodes],
            feats: vec![vec![]; prog.n_nodes],
            spaces: vec![],
            prev_word: false,
            prev_cont: false,
            at_line_start: true,
            indent: 0,
            line_feats: BTreeSet::new(),
            global_feats: BTreeSet::new(),
            cur_top: 0,
            in_slot: false,
            no_flip: BTreeSet::new(),
            pending_op: None,
            brackets: vec![],
            next_brace_is_object: false,
            spaces_mark: 0,
        }
    }

    fn raw(&mut self, s: &str) {
        for ch in s.chars() {
            if ch == '\n' {
                self.line += 1;
                self.col = 0;
                self.line_feats.clear();
            } else {
                self.col += 1;
                if ch == '\t' {
                    self.line_feats.insert("tab-before".into());
                }
                if ch == '\r' {
                    self.line_feats.insert("cr-before".into());
                }
                if !ch.is_ascii() {
                    self.line_feats.insert("multibyte-before".into());
                }
            }
        }
        self.out.push_str(s);
    }

    fn nl(&mut self) {
        if self.lay.crlf {
            self.raw("\r\n");
            self.global_feats.insert("crlf".into());
        } else {
            self.raw("\n");
        }
    }

    fn ws(&mut self, n_spaces_canon: usize, must: bool) {
        if !self.lay.enabled {
            for _ in 0..n_spaces_canon.max(usize::from(must)) {
                self.space();
            }
            return;
        }
        let choice = self.rng.below(8);
        let mut emitted = false;
        match choice {
            0 => {}
            1 | 2 => {
                self.space();
                emitted = true;
            }
            3 => {
                self.space();
                self.space();
                emitted = true;
            }
            4 if self.lay.tabs => {
                self.raw("\t");
                emitted = true;
            }
            5 if self.lay.tabs => {
                self.space();
                self.raw("\t");
                self.space();
                emitted = true;
            }
            6 if self.lay.crlf => {
                self.raw("\r");
                self.space();
                emitted = true;
            }
            _ => {
                for _ in 0..n_spaces_canon {
                    self.space();
                    emitted = true;
                }
            }
        }
        if must && !emitted {
            self.space();
        }
    }

    fn space(&mut self) {
        if !self.in_slot {
            let stmt_level = !self.brackets.iter().any(|b| *b);
            self.spaces.push(Space { off: self.out.len() as u64, line: self.line, col: self.col + 1, after_first_print: false, top_stmt: self.cur_top, stmt_level, next_len: 0 });
        }
        self.raw(" ");
    }

    fn indentation(&mut self) {
        if self.lay.enabled {
            match self.rng.below(4) {
                0 if self.lay.tabs => {
                    for _ in 0..self.indent {
                        self.raw("\t");
                    }
                }
                1 => {
                    for _ in 0..self.indent * 2 {
                        self.raw(" ");
                    }
                }
                2 => {}
                _ => {
                    for _ in 0..self.indent * 4 {
                        self.raw(" ");
                    }
                }
            }
        } else {
            for _ in 0..self.indent * 4 {
                self.raw(" ");
            }
        }
    }

    // optional continuation break after a token that allows one
    fn maybe_break(&mut self) -> bool {
        if !(self.lay.enabled && self.lay.breaks && self.prev_cont && !self.in_slot) || !self.rng.chance(1, 7) {
            return false;
        }
        if self.lay.comments && self.rng.chance(1, 3) {
            self.raw(" ");
            let c = COMMENTS[self.rng.usize_below(COMMENTS.len())];
            self.raw(c);
            self.global_feats.insert("comment-before".into());
        }
        self.nl();
        if self.lay.blanks && self.rng.chance(1, 4) {
            self.nl();
            self.global_feats.insert("blank-lines".into());
        }
        self.indentation();
        self.raw("  ");
        self.line_feats.insert("continuation-break".into());
        true
    }

    // emit one token
    fn tok(&mut self, text: &str, word: bool, cont_after: bool, canon_space: usize) {
        if self.at_line_start {
            self.at_line_start = false;
        } else if !self.maybe_break() {
            let must = self.prev_word && word;
            self.ws(canon_space, must);
        }
        // record the position of call nodes whose first token this is
        if !self.pending.is_empty() {
            let mut f: Vec<String> = self.line_feats.iter().cloned().collect();
            f.extend(self.global_feats.iter().cloned());
            if self.line == 1 {
                f.push("first-line".into());
            }
            if self.col == 0 {
                f.push("first-column".into());
            }
            for n in std::mem::take(&mut self.pending) {
                if self.pos[n].is_none() {
                    self.pos[n] = Some((self.line, self.col + 1));
                    if !self.in_slot && !self.no_flip.contains(&n) {
                        self.tok_off[n] = Some(self.out.len() as u64);
                    }
                    self.feats[n] = f.clone();
                }
            }
        }
        for i in self.spaces_mark..self.spaces.len() {
            self.spaces[i].next_len = text.len() as u32;
        }
        self.spaces_mark = self.spaces.len();
        if let Some(n) = self.pending_op.take() {
            let mut f: Vec<String> = self.line_feats.iter().cloned().collect();
            f.extend(self.global_feats.iter().cloned());
            self.pos[n] = Some((self.line, self.col + 1));
            if !self.in_slot {
                self.tok_off[n] = Some(self.out.len() as u64);
            }
            self.feats[n] = f;
        }
        match text {
            "(" | "[" => self.brackets.push(true),
            "{" => {
                let obj = std::mem::take(&mut self.next_brace_is_object);
                self.brackets.push(obj);
            }
            ")" | "]" | "}" => {
                self.brackets.pop();
            }
            _ => {}
        }
        let had_nl = text.contains('\n');
        self.raw(text);
        if had_nl {
            self.global_feats.insert("multiline-string".into());
            self.line_feats.insert("multiline-string-before".into());
        }
        self.prev_word = word;
        self.prev_cont = cont_after;
    }

    fn sym(&mut self, s: &str, cont_after: bool, canon_space: usize) {
        self.tok(s, false, cont_after, canon_space);
    }

    fn word(&mut self, s: &str) {
        self.tok(s, true, false, 1);
    }

    // statement terminator
    fn end_stmt(&mut self) {
        if self.lay.enabled && self.lay.semis && self.rng.chance(1, 3) {
            self.raw(";");
            if self.rng.chance(1, 2) {
                // another statement may follow on the same line
                self.raw(" ");
                self.prev_word = false;
                self.prev_cont = false;
                self.at_line_start = true;
                self.line_feats.insert("same-line-stmt".into());
                return;
            }
        }
        if self.lay.enabled && self.lay.comments && self.rng.chance(1, 6) {
            self.raw(" ");
            let c = COMMENTS[self.rng.usize_below(COMMENTS.len())];
            self.raw(c);
            self.global_feats.insert("comment-before".into());
        }
        self.nl();
        if self.lay.enabled && self.lay.blanks && self.rng.chance(1, 5) {
            for _ in 0..(1 + self.rng.below(2)) {
                self.nl();
            }
            self.global_feats.insert("blank-lines".into());
        }
        if self.lay.enabled && self.lay.comments && self.rng.chance(1, 10) {
            self.indentation();
            let c = COMMENTS[self.rng.usize_below(COMMENTS.len())];
            self.raw(c);
            self.nl();
            self.global_feats.insert("comment-before".into());
        }
        self.indentation();
        self.prev_word = false;
        self.prev_cont = false;
        self.at_line_start = true;
    }

    // ------------------------------------------------------------ values

    fn str_lit(&mut self, s: &str, allow_raw_nl: bool) -> String {
        let mut t = String::from("\"");
        for ch in s.chars() {
            match ch {
                '"' => t.push_str("\\\""),
                '\\' => t.push_str("\\\\"),
                '$' => t.push_str("\\$"),
                '\n' => {
                    if allow_raw_nl && self.lay.enabled && self.lay.rawnl && self.rng.chance(1, 2) {
                        t.push('\n');
                    } else {
                        t.push_str("\\n");
                    }
                }
                '\r' => t.push_str("\\r"),
                // an ASCII letter or digit may be spelled as a hex escape
                c if c.is_ascii_alphanumeric() && self.lay.enabled && !self.in_slot && self.rng.chance(1, 24) => {
                    t.push_str(&format!("\\x{:02x}", c as u32));
                }
                c => t.push(c),
            }
        }
        t.push('"');
        t
    }

    fn lit(&mut self, v: &Val) {
        match v {
            Val::Null => self.word("null"),
            Val::Bool(b) => self.word(if *b { "true" } else { "false" }),
            Val::Int(n) => {
                if *n < 0 {
                    self.sym("-", true, 1);
                    let t = format!("{}", -n);
                    // keep the literal minus attached
                    self.raw(&t);
                    self.prev_word = true;
                    self.prev_cont = false;
                } else {
                    let mut t = format!("{n}");
                    if self.lay.enabled && *n >= 1000 && self.rng.chance(1, 2) {
                        t = format!("{}_{}", n / 1000, format!("{:03}", n % 1000));
                    } else if self.lay.enabled && !self.in_slot && self.rng.chance(1, 12) {
                        // zero padding is layout, too: int literals are always decimal
                        t = format!("{}{t}", ["0", "00", "0_"][self.rng.usize_below(3)]);
                    }
                    self.word(&t);
                }
            }
            Val::Str(s) => {
                let allow = !self.in_slot;
                let t = self.str_lit(s, allow);
                self.tok(&t, false, false, 1);
            }
            Val::List(items) => {
                self.sym("[", true, 1);
                for (i, it) in items.iter().enumerate() {
                    if i > 0 {
                        self.sym(",", true, 0);
                    }
                    self.lit(it);
                }
                self.sym("]", false, 0);
            }
            Val::Obj(props) => {
                self.next_brace_is_object = true;
                self.sym("{", true, 1);
                for (i, (k, it)) in props.iter().enumerate() {
                    if i > 0 {
                        self.sym(",", true, 0);
                    }
                    let t = self.str_lit(k, false);
                    self.tok(&t, false, false, if i == 0 { 0 } else { 1 });
                    self.sym(":", false, 0);
                    self.lit(it);
                }
                self.sym("}", false, 0);
            }
            Val::Fn(_) => self.word("null"),
        }
    }

    // ------------------------------------------------------- expressions

    // tiers of seed's grammar: 5 postfix/primary, 4 `* / % == < ...`, 3 `+ -`, 2 `&& ||`, 1 `..`
    fn tier(e: &Expr) -> u8 {
        match e {
            Expr::Bin(_, op, _, _) => match *op {
                "*" | "/" | "%" | "==" | "!=" | "<" | "<=" | ">" | ">=" | "===" | "!==" => 4,
                "+" | "-" => 3,
                _ => 2,
            },
            Expr::Range(..) => 1,
            Expr::Lit(Val::Int(n)) if *n < 0 => 5,
            _ => 5,
        }
    }

    fn expr_at(&mut self, e: &Expr, min_tier: u8) {
        if Self::tier(e) < min_tier {
            // parenthesise; a call is never wrapped directly (tier 5)
            self.sym("(", true, 1);
            self.expr(e);
            self.sym(")", false, 0);
        } else {
            self.expr(e);
        }
    }

    fn fn_name(&self, id: usize) -> String {
        if let Some(n) = self.names.get(&id) {
            return n.clone();
        }
        self.prog.fns[id].name.clone().unwrap_or_else(|| format!("missing_fn_{id}"))
    }

    fn args(&mut self, args: &[(Expr, bool)]) {
        self.sym("(", true, 0);
        for (i, (a, spread)) in args.iter().enumerate() {
            if i > 0 {
                self.sym(",", true, 0);
            }
            if i == 0 {
                self.expr_first_arg(a, *spread);
            } else {
                self.expr_item(a, *spread, 1);
            }
        }
        self.sym(")", false, 0);
    }

    fn expr_first_arg(&mut self, a: &Expr, spread: bool) {
        self.expr_item(a, spread, 0);
    }

    fn expr_item(&mut self, a: &Expr, spread: bool, _canon: usize) {
        // `x..` : the operand of a postfix spread is a full expression in the
        // grammar (Expr ".."?), so no parentheses are needed except for ranges
        if spread {
            self.expr_at(a, 2);
            self.sym("..", false, 0);
        } else {
            self.expr_at(a, 1);
        }
    }

    fn fn_lit(&mut self, id: usize) {
        self.word("fn");
        self.params(id);
        self.body_block(&self.prog.fns[id].body.clone());
    }

    fn params(&mut self, id: usize) {
        let f = self.prog.fns[id].clone();
        self.sym("(", true, 0);
        let n = f.params.len();
        for (i, p) in f.params.iter().enumerate() {
            if i > 0 {
                self.sym(",", true, 0);
            }
            if f.collect && i == n - 1 {
                self.sym("..", false, if i == 0 { 0 } else { 1 });
                self.prev_word = false;
                self.pat_adj(p);
            } else {
                self.pat(p);
            }
        }
        self.sym(")", false, 0);
    }

    fn pat_adj(&mut self, p: &Pat) {
        // pattern directly after `..` : no gap decision problems, emit normally
        self.pat(p);
    }

    pub fn expr(&mut self, e: &Expr) {
        match e {
            Expr::Lit(v) => self.lit(v),
            Expr::Var(n) => self.word(n),
            Expr::ParamMinus1 => {
                self.word("n");
                self.sym("-", true, 1);
                self.word("1");
            }
            Expr::FnLit(id) => self.fn_lit(*id),
            Expr::Print { node, arg, .. } => {
                self.pending.push(*node);
                self.word("print");
                self.sym("(", true, 0);
                self.expr_at(arg, 1);
                self.sym(")", false, 0);
            }
            Expr::Call { node, callee, args } => {
                self.pending.push(*node);
                match callee {
                    Callee::Name(id) => {
                        let n = self.fn_name(*id);
                        self.word(&n);
                    }
                    Callee::ListElem(fs, i, _) => {
                        self.word(fs);
                        self.sym("[", true, 0);
                        self.word(&format!("{i}"));
                        self.sym("]", false, 0);
                    }
                    Callee::Method(o, key, bracket, _) => {
                        self.word(o);
                        if *bracket {
                            self.sym("[", true, 0);
                            let t = self.str_lit(key, false);
                            self.tok(&t, false, false, 0);
                            self.sym("]", false, 0);
                        } else {
                            self.sym(".", true, 0);
                            self.tok(key, true, false, 0);
                        }
                    }
                    Callee::Returned(inner, _) => self.expr(inner),
                    Callee::Anon(id) => {
                        for n in self.pending.clone() {
                            self.no_flip.insert(n);
                        }
                        self.fn_lit(*id)
                    }
                }
                self.args(args);
            }
            Expr::Bin(node, op, l, r) => {
                let t = Self::tier(e);
                self.expr_at(l, t);
                let cont = *op != "===" && *op != "!==";
                self.pending_op = Some(*node);
                self.sym(op, cont, 1);
                self.expr_at(r, t + 1);
            }
            Expr::List(items) => {
                self.sym("[", true, 1);
                for (i, (a, spread)) in items.iter().enumerate() {
                    if i > 0 {
                        self.sym(",", true, 0);
                    }
                    self.expr_item(a, *spread, 1);
                }
                self.sym("]", false, 0);
            }
            Expr::Obj(items) => {
                self.next_brace_is_object = true;
                self.sym("{", true, 1);
                for (i, it) in items.iter().enumerate() {
                    if i > 0 {
                        self.sym(",", true, 0);
                    }
                    match it {
                        ObjItem::Pair(k, v) => {
                            self.expr_at(k, 1);
                            self.sym(":", false, 0);
                            self.expr_at(v, 1);
                        }
                        ObjItem::Spread(x) => {
                            self.expr_at(x, 2);
                            self.sym("..", false, 0);
                        }
                    }
                }
                self.sym("}", false, 0);
            }
            Expr::Index(b, i) => {
                self.expr_at(b, 5);
                self.sym("[", true, 0);
                self.expr_at(i, 1);
                self.sym("]", false, 0);
            }
            Expr::Slice(b, s, t) => {
                self.expr_at(b, 5);
                self.sym("[", true, 0);
                if let Some(s) = s {
                    self.expr_at(s, 1);
                }
                self.sym(":", false, 0);
                if let Some(t) = t {
                    self.expr_at(t, 1);
                }
                self.sym("]", false, 0);
            }
            Expr::Range(a, b) => {
                self.expr_at(a, 2);
                self.sym("..", false, 1);
                self.expr_at(b, 2);
            }
            Expr::Prop(b, name) => {
                self.expr_at(b, 5);
                self.sym(".", true, 0);
                self.tok(name, true, false, 0);
            }
            Expr::Len(b) => {
                self.expr_at(b, 5);
                self.sym("->", false, 0);
                self.tok("len", true, false, 0);
                self.sym("(", true, 0);
                self.sym(")", false, 0);
            }
            Expr::Interp(parts) => {
                // one token: $"text${slot}text"
                let mut t = String::from("$\"");
                let nodes_before = std::mem::take(&mut self.pending);
                for p in parts {
                    match p {
                        InterpPart::Text(s) => {
                            for ch in s.chars() {
                                match ch {
                                    '"' => t.push_str("\\\""),
                                    '\\' => t.push_str("\\\\"),
                                    '$' => t.push_str("\\$"),
                                    '\n' => t.push_str("\\n"),
                                    c => t.push(c),
                                }
                            }
                        }
                        InterpPart::Slot(x) => {
                            let plain = Layout::plain();
                            let mut sub = Printer::new(self.prog, self.names, self.removed, Rng::new(1), plain);
                            sub.in_slot = true;
                            sub.expr(x);
                            t.push_str("${");
                            t.push_str(&sub.out);
                            t.push('}');
                            // nodes inside the slot: positions are slot-relative in seed (K1);
                            // they are recorded as the literal's position for information only
                            let before = self.pending.len();
                            collect_nodes(x, &mut self.pending);
                            for n in self.pending[before..].to_vec() {
                                self.no_flip.insert(n);
                            }
                        }
                    }
                }
                t.push('"');
                let mut all = nodes_before;
                all.append(&mut self.pending);
                self.pending = all;
                self.tok(&t, false, false, 1);
            }
        }
    }

    fn pat(&mut self, p: &Pat) {
        match p {
            Pat::Var(n) => self.word(n),
            Pat::Ignore => self.word("_"),
            Pat::List(ps, rest) => {
                self.sym("[", true, 1);
                let mut first = true;
                for q in ps {
                    if !first {
                        self.sym(",", true, 0);
                    }
                    first = false;
                    self.pat(q);
                }
                if let Some(r) = rest {
                    if !first {
                        self.sym(",", true, 0);
                    }
                    self.sym("..", false, 1);
                    self.word(r);
                }
                self.sym("]", false, 0);
            }
            Pat::Obj(ps, rest) => {
                self.next_brace_is_object = true;
                self.sym("{", true, 1);
                let mut first = true;
                for (k, _, q) in ps {
                    if !first {
                        self.sym(",", true, 0);
                    }
                    first = false;
                    self.expr_at(k, 1);
                    self.sym(":", false, 0);
                    self.pat(q);
                }
                if let Some(r) = rest {
                    if !first {
                        self.sym(",", true, 0);
                    }
                    self.sym("..", false, 1);
                    self.word(r);
                }
                self.sym("}", false, 0);
            }
            Pat::Elem(b, i) => {
                self.expr_at(b, 5);
                self.sym("[", true, 0);
                self.expr_at(i, 1);
                self.sym("]", false, 0);
            }
            Pat::Slice(b, s, t) => {
                self.expr_at(b, 5);
                self.sym("[", true, 0);
                if let Some(s) = s {
                    self.expr_at(s, 1);
                }
                self.sym(":", false, 0);
                if let Some(t) = t {
                    self.expr_at(t, 1);
                }
                self.sym("]", false, 0);
            }
            Pat::Prop(b, name) => {
                self.expr_at(b, 5);
                self.sym(".", true, 0);
                self.tok(name, true, false, 0);
            }
        }
    }

    // -------------------------------------------------------- statements

    fn live(&self, ss: &[Stmt]) -> Vec<Stmt> {
        ss.iter().filter(|s| !self.removed.contains(&s.id)).cloned().collect()
    }

    // `{ stmts }` as the body of if/while/for/fn (may be empty)
    fn body_block(&mut self, ss: &[Stmt]) {
        let ss = self.live(ss);
        self.sym("{", true, 1);
        if ss.is_empty() {
            self.sym("}", false, 0);
            return;
        }
        self.indent += 1;
        self.open_line();
        for s in &ss {
            self.stmt(s);
            self.end_stmt_in_block();
        }
        self.indent -= 1;
        self.close_brace();
    }

    // after `{`: go to a new line (or stay on the line in compact layouts)
    fn open_line(&mut self) {
        if self.lay.enabled && self.lay.semis && self.rng.chance(1, 6) {
            self.raw(" ");
            self.prev_word = false;
            self.prev_cont = false;
            self.at_line_start = true;
            return;
        }
        self.nl();
        self.indentation();
        self.prev_word = false;
        self.prev_cont = false;
        self.at_line_start = true;
    }

    fn end_stmt_in_block(&mut self) {
        self.end_stmt();
    }

    fn close_brace(&mut self) {
        // we are at a line start (after a terminator); re-indent one level less is cosmetic
        self.at_line_start = true;
        self.tok("}", false, false, 0);
    }

    // layout-only filler: a discarded string assignment earlier on the same line,
    // so that multi-byte and multi-line text precedes the statement's tokens
    fn filler(&mut self) {
        if !(self.lay.enabled && self.at_line_start && !self.in_slot) || !self.rng.chance(1, 7) {
            return;
        }
        let t = match if self.rng.chance(1, 150) { 9 } else { self.rng.below(4) } {
            // a very long line: what follows sits beyond column 65536
            9 => format!("_ = \"{}\"; ", ["x", "é"][self.rng.usize_below(2)].repeat(66_000 + self.rng.usize_below(9000))),
            0 => "_ = \"żółw ✓ 日本\"; ".to_string(),
            1 if self.lay.rawnl => "_ = \"first\nsecond ü\"; ".to_string(),
            2 => "_ = \"é\";\t".to_string(),
            _ => "_ = [\"𝄞\", \"x\"]; ".to_string(),
        };
        if t.contains('\n') {
            self.global_feats.insert("multiline-string".into());
        }
        if t.len() > 60_000 {
            self.global_feats.insert("bulk-padding".into());
            self.line_feats.insert("very-long-line".into());
        }
        self.raw(&t);
        if t.contains('\n') {
            self.line_feats.insert("multiline-string-before".into());
        }
        self.line_feats.insert("same-line-stmt".into());
    }

    pub fn stmt(&mut self, s: &Stmt) {
        self.filler();
        match &s.kind {
            StmtKind::Expr(e) => self.expr(e),
            StmtKind::Decl(p, e) => {
                self.pat(p);
                self.sym(":=", true, 1);
                self.expr_at(e, 1);
            }
            StmtKind::Assign(p, e) => {
                self.pat(p);
                self.sym("=", true, 1);
                self.expr_at(e, 1);
            }
            StmtKind::OpAssign(p, op, e) => {
                self.pat(p);
                self.sym(op, true, 1);
                self.expr_at(e, 1);
            }
            StmtKind::If(branches, els) => {
                for (i, (cond, _, body)) in branches.iter().enumerate() {
                    if i > 0 {
                        self.tok("else", true, false, 1);
                    }
                    self.word("if");
                    self.expr_at(cond, 1);
                    self.body_block(body);
                }
                if let Some(b) = els {
                    self.tok("else", true, false, 1);
                    self.body_block(b);
                }
            }
            StmtKind::While { var, n, extra, brk, cont, body } => {
                self.word(var);
                self.sym(":=", true, 1);
                self.word("0");
                self.end_stmt();
                self.word("while");
                self.word(var);
                self.sym("<", true, 1);
                self.word(&format!("{n}"));
                if let Some(e) = extra {
                    self.sym("&&", true, 1);
                    self.expr_at(e, 3);
                }
                self.sym("{", true, 1);
                self.indent += 1;
                self.open_line();
                self.word(var);
                self.sym("+=", true, 1);
                self.word("1");
                self.end_stmt();
                if let Some(b) = brk {
                    self.word("if");
                    self.word(var);
                    self.sym("==", true, 1);
                    self.word(&format!("{b}"));
                    self.sym("{", true, 1);
                    self.word("break");
                    self.raw(";");
                    self.sym("}", false, 1);
                    self.end_stmt();
                }
                if let Some(c) = cont {
                    self.word("if");
                    self.word(var);
                    self.sym("==", true, 1);
                    self.word(&format!("{c}"));
                    self.sym("{", true, 1);
                    self.word("continue");
                    self.raw(";");
                    self.sym("}", false, 1);
                    self.end_stmt();
                }
                for st in self.live(body) {
                    self.stmt(&st);
                    self.end_stmt();
                }
                self.indent -= 1;
                self.close_brace();
            }
            StmtKind::For { pat, iter, body, .. } => {
                self.word("for");
                self.pat(pat);
                self.word("in");
                self.expr_at(iter, 1);
                self.body_block(body);
            }
            StmtKind::Block(b) => {
                let ss = self.live(b);
                if ss.is_empty() {
                    // an empty bare block is not valid syntax: emit a harmless statement
                    self.word("null");
                    return;
                }
                // a bare block and an object literal statement share their first tokens
                // (`{ a, ...`): a stray `,` directly inside may be legal, so not "statement level"
                self.next_brace_is_object = true;
                self.tok("{", false, true, 0);
                self.indent += 1;
                self.open_line();
                for st in &ss {
                    self.stmt(st);
                    self.end_stmt();
                }
                self.indent -= 1;
                self.close_brace();
            }
            StmtKind::FnDecl(id) => {
                self.word("fn");
                let n = self.fn_name(*id);
                self.word(&n);
                self.params(*id);
                let body = self.prog.fns[*id].body.clone();
                self.body_block(&body);
            }
            StmtKind::Return(e) => {
                self.word("return");
                self.expr_at(e, 1);
            }
            StmtKind::IfParamPositive(body) => {
                self.word("if");
                self.word("n");
                self.sym(">", true, 1);
                self.word("0");
                self.body_block(body);
            }
        }
    }

    pub fn program(&mut self) -> Vec<usize> {
        let mut ends = vec![];
        if self.lay.enabled && self.lay.lead {
            for _ in 0..(1 + self.rng.below(3)) {
                self.nl();
            }
            self.global_feats.insert("blank-lines".into());
        }
        let top = self.live(&self.prog.top);
        let ids: Vec<usize> = self.prog.top.iter().enumerate().filter(|(_, s)| !self.removed.contains(&s.id)).map(|(i, _)| i).collect();
        // rarely: tens to hundreds of kilobytes of blank lines and comments between two
        // top-level statements, so that the script crosses buffer- and chunk-size thresholds
        // (and the statements after it sit at six-digit line numbers)
        let bulk_at: Option<usize> = if self.lay.enabled && !top.is_empty() && self.rng.chance(1, 120) { Some(self.rng.usize_below(top.len())) } else { None };
        for (k, s) in top.iter().enumerate() {
            if bulk_at == Some(k) {
                let target = [9_000usize, 70_000, 140_000, 300_000][self.rng.usize_below(4)] + self.rng.usize_below(5000);
                let start = self.out.len();
                while self.out.len() - start < target {
                    match self.rng.below(4) {
                        0 => {
                            let n = 1 + self.rng.usize_below(4000);
                            let unit = ["x", "é", "日本", "# "][self.rng.usize_below(4)];
                            let line = format!("# {}", unit.repeat(n));
                            self.raw(&line);
                            self.nl();
                        }
                        _ => {
                            for _ in 0..(1 + self.rng.below(400)) {
                                self.nl();
                            }
                        }
                    }
                }
                self.global_feats.insert("bulk-padding".into());
                self.global_feats.insert("blank-lines".into());
                self.global_feats.insert("comment-before".into());
            }
            self.cur_top = ids[k];
            self.stmt(s);
            ends.push(self.out.len());
            self.end_stmt();
        }
        ends
    }
}

fn collect_nodes(e: &Expr, out: &mut Vec<NodeId>) {
    match e {
        Expr::Print { node, arg, .. } => {
            out.push(*node);
            collect_nodes(arg, out);
        }
        Expr::Call { node, callee, args } => {
            out.push(*node);
            if let Callee::Returned(inner, _) = callee {
                collect_nodes(inner, out);
            }
            for (a, _) in args {
                collect_nodes(a, out);
            }
        }
        _ => {}
    }
}
