// W2 generator: builds a Prog top-down from target values.

use super::ir::*;
use crate::rng::Rng;
use std::collections::BTreeMap;

#[derive(Clone, Debug)]
pub struct GenOpts {
    pub max_calls: usize,
    pub max_depth: usize,
    pub top_stmts: usize,
    pub interp: bool,
}

impl Default for GenOpts {
    fn default() -> GenOpts {
        GenOpts { max_calls: 36, max_depth: 4, top_stmts: 6, interp: true }
    }
}

pub struct Gen<'a> {
    pub rng: &'a mut Rng,
    pub fns: Vec<FnDef>,
    pub site: Vec<String>,
    next_var: usize,
    next_stmt: usize,
    next_tok: usize,
    opts: GenOpts,
    pub bind_names: BTreeMap<usize, String>,
    n_call_nodes: usize,
}

#[derive(Clone)]
struct Cx {
    depth: usize,      // function nesting depth
    edepth: usize,     // expression nesting depth
    in_fn: bool,
    ret_ok: bool,      // a `return` here reaches the function (not inside a bare block)
    loop_ok: bool,
    ret_val: Option<Val>, // value every `return` of the enclosing helper must produce
}

const WORDS: &[&str] = &["alpha", "beta", "gamma", "delta", "żółw", "naïve", "日本", "x y", "q", ""];
const KEYS: &[&str] = &["a", "b", "k", "key", "m2", "zz", "A", "with space", "é", "0"];

impl<'a> Gen<'a> {
    pub fn new(rng: &'a mut Rng, opts: GenOpts) -> Gen<'a> {
        Gen { rng, fns: vec![], site: vec![], next_var: 0, next_stmt: 0, next_tok: 0, opts, bind_names: BTreeMap::new(), n_call_nodes: 0 }
    }

    fn var(&mut self, p: &str) -> String {
        self.next_var += 1;
        format!("{p}{}", self.next_var)
    }

    fn stmt(&mut self, kind: StmtKind) -> Stmt {
        self.next_stmt += 1;
        Stmt { id: self.next_stmt, kind }
    }

    fn node(&mut self, site: &str) -> NodeId {
        self.site.push(site.to_string());
        self.n_call_nodes += 1;
        self.site.len() - 1
    }

    // operator node: same index space as call nodes (position, features), no call budget
    fn bin(&mut self, op: &'static str, kind: &str, l: Expr, r: Expr) -> Expr {
        self.site.push(format!("operator:{kind}"));
        Expr::Bin(self.site.len() - 1, op, Box::new(l), Box::new(r))
    }

    fn calls_left(&self) -> bool {
        self.n_call_nodes < self.opts.max_calls
    }

    pub fn n_stmts(&self) -> usize {
        self.next_stmt
    }

    // ------------------------------------------------------------ values

    fn small_int(&mut self) -> i64 {
        self.rng.range(-3, 12)
    }

    fn ascii_word(&mut self) -> String {
        let n = 1 + self.rng.usize_below(5);
        (0..n).map(|_| (b'a' + self.rng.below(26) as u8) as char).collect()
    }

    fn token(&mut self) -> String {
        self.next_tok += 1;
        let t = self.next_tok;
        match self.rng.below(8) {
            0 | 2 => format!("T{t} {}", WORDS[self.rng.usize_below(WORDS.len())]),
            1 => format!("T{t}\nsecond line"),
            _ => format!("T{t}"),
        }
    }

    fn rand_val(&mut self, size: usize) -> Val {
        match self.rng.below(if size == 0 { 4 } else { 7 }) {
            0 => Val::Null,
            1 => Val::Bool(self.rng.chance(1, 2)),
            2 => Val::Int(self.small_int()),
            3 => match self.rng.below(10) {
                0..=5 => Val::Str(self.ascii_word()),
                6..=8 => Val::Str(WORDS[self.rng.usize_below(WORDS.len())].to_string()),
                _ => Val::Str("two\nlines ✓".to_string()),
            },
            4 | 5 => {
                let n = self.rng.usize_below(4);
                Val::List((0..n).map(|_| self.rand_val(size - 1)).collect())
            }
            _ => {
                let n = self.rng.usize_below(3);
                let mut m = BTreeMap::new();
                for _ in 0..n {
                    let k = KEYS[self.rng.usize_below(KEYS.len())].to_string();
                    let v = self.rand_val(size - 1);
                    m.insert(k, v);
                }
                Val::Obj(m)
            }
        }
    }

    fn printable(&mut self) -> Val {
        if self.rng.chance(1, 60) {
            // a long line of multi-byte text: larger than std's 1 KiB line buffer
            let t = self.token();
            return Val::Str(format!("{t} {}", "żółw✓".repeat(150 + self.rng.usize_below(400))));
        }
        match self.rng.below(12) {
            0 => Val::Int(self.small_int()),
            1 => Val::Null,
            2 => Val::Bool(true),
            3 => {
                let t = self.token();
                Val::List(vec![Val::Str(t), Val::Int(self.small_int())])
            }
            4 => {
                let mut m = BTreeMap::new();
                m.insert("k".to_string(), Val::Str(self.token()));
                m.insert("n".to_string(), Val::List(vec![Val::Int(1), Val::Int(2)]));
                Val::Obj(m)
            }
            _ => Val::Str(self.token()),
        }
    }

    // ------------------------------------------------------- expressions

    // An expression whose value is exactly `v`; `site` names the syntactic
    // position for coverage.  Helper definitions it needs go to `pre`.
    fn expr_eq(&mut self, v: &Val, site: &str, cx: &Cx, pre: &mut Vec<Stmt>) -> Expr {
        if cx.edepth >= 3 || !self.calls_left() {
            if self.calls_left() && self.rng.chance(1, 3) {
                return self.call_site(v, site, cx, pre);
            }
            return Expr::Lit(v.clone());
        }
        let mut c = cx.clone();
        c.edepth += 1;
        let roll = self.rng.below(10);
        if roll < 4 {
            return self.call_site(v, site, cx, pre);
        }
        if roll < 5 {
            return Expr::Lit(v.clone());
        }
        match v {
            Val::Int(n) => match self.rng.below(5) {
                0 | 1 => {
                    let a = self.small_int();
                    let l = self.expr_eq(&Val::Int(a), "binop-lhs", &c, pre);
                    let r = self.expr_eq(&Val::Int(n - a), "binop-rhs", &c, pre);
                    self.bin("+", "int", l, r)
                }
                2 => {
                    let k = 1 + self.rng.usize_below(3);
                    let i = self.rng.usize_below(k);
                    let mut items: Vec<Val> = (0..k).map(|_| Val::Int(self.small_int())).collect();
                    items[i] = Val::Int(*n);
                    let base = self.expr_eq(&Val::List(items), "indexed-value", &c, pre);
                    let idx = self.expr_eq(&Val::Int(i as i64), "index", &c, pre);
                    Expr::Index(Box::new(base), Box::new(idx))
                }
                3 if *n >= 0 && *n <= 6 => {
                    let s: String = (0..*n).map(|_| 'z').collect();
                    let e = self.expr_eq(&Val::Str(s), "type-fn-receiver", &c, pre);
                    Expr::Len(Box::new(e))
                }
                _ => {
                    let mut m = BTreeMap::new();
                    m.insert("k".to_string(), Val::Int(*n));
                    let base = self.expr_eq(&Val::Obj(m), "prop-receiver", &c, pre);
                    Expr::Prop(Box::new(base), "k".to_string())
                }
            },
            Val::Str(s) if s.is_ascii() && !s.is_empty() && !s.contains('\n') => match self.rng.below(4) {
                0 => {
                    let k = self.rng.usize_below(s.len() + 1);
                    let l = self.expr_eq(&Val::Str(s[..k].to_string()), "binop-lhs", &c, pre);
                    let r = self.expr_eq(&Val::Str(s[k..].to_string()), "binop-rhs", &c, pre);
                    self.bin("+", "string", l, r)
                }
                1 => {
                    // slice of a longer string
                    let padl = self.ascii_word();
                    let padr = self.ascii_word();
                    let long = format!("{padl}{s}{padr}");
                    let a = padl.len() as i64;
                    let b = a + s.len() as i64;
                    let sa = self.expr_eq(&Val::Int(a), "slice-start", &c, pre);
                    let sb = self.expr_eq(&Val::Int(b), "slice-end", &c, pre);
                    let base = self.expr_eq(&Val::Str(long), "sliced-value", &c, pre);
                    Expr::Slice(Box::new(base), Some(Box::new(sa)), Some(Box::new(sb)))
                }
                2 if self.opts.interp && !s.contains(|ch: char| "\"\\${}".contains(ch)) => {
                    let k = self.rng.usize_below(s.len() + 1);
                    let k2 = k + self.rng.usize_below(s.len() - k + 1);
                    let slot = self.call_site(&Val::Str(s[k..k2].to_string()), "interp-slot", &c, pre);
                    Expr::Interp(vec![InterpPart::Text(s[..k].to_string()), InterpPart::Slot(slot), InterpPart::Text(s[k2..].to_string())])
                }
                _ => {
                    let mut m = BTreeMap::new();
                    m.insert("key".to_string(), Val::Str(s.clone()));
                    let base = self.expr_eq(&Val::Obj(m), "indexed-value", &c, pre);
                    let idx = self.expr_eq(&Val::Str("key".to_string()), "index", &c, pre);
                    Expr::Index(Box::new(base), Box::new(idx))
                }
            },
            Val::Bool(b) => match self.rng.below(4) {
                0 if *b => {
                    let l = self.call_site(&Val::Null, "binop-lhs", &c, pre);
                    self.bin("==", "eq", l, Expr::Lit(Val::Null))
                }
                1 => {
                    let x = self.small_int();
                    let y = if *b { x } else { x + 1 };
                    let l = self.expr_eq(&Val::Int(x), "binop-lhs", &c, pre);
                    let r = self.expr_eq(&Val::Int(y), "binop-rhs", &c, pre);
                    self.bin("==", "eq", l, r)
                }
                2 => {
                    let x = self.small_int();
                    let y = if *b { x + 2 } else { x - 1 };
                    let l = self.expr_eq(&Val::Int(x), "binop-lhs", &c, pre);
                    let r = self.expr_eq(&Val::Int(y), "binop-rhs", &c, pre);
                    self.bin("<", "cmp", l, r)
                }
                _ => {
                    let (op, x, y) = if *b { ("||", self.rng.chance(1, 2), true) } else { ("&&", self.rng.chance(1, 2), false) };
                    let l = self.expr_eq(&Val::Bool(x), "binop-lhs", &c, pre);
                    let r = self.expr_eq(&Val::Bool(y), "binop-rhs", &c, pre);
                    self.bin(op, "bool", l, r)
                }
            },
            Val::List(items) => match self.rng.below(5) {
                0 if !items.is_empty() => {
                    let k = self.rng.usize_below(items.len() + 1);
                    let l = self.expr_eq(&Val::List(items[..k].to_vec()), "binop-lhs", &c, pre);
                    let r = self.expr_eq(&Val::List(items[k..].to_vec()), "binop-rhs", &c, pre);
                    self.bin("+", "list", l, r)
                }
                1 if is_consecutive(items) => {
                    let (a, b) = match (items.first(), items.last()) {
                        (Some(Val::Int(a)), Some(Val::Int(b))) => (*a, *b + 1),
                        _ => (0, 0),
                    };
                    let l = self.expr_eq(&Val::Int(a), "range-start", &c, pre);
                    let r = self.expr_eq(&Val::Int(b), "range-end", &c, pre);
                    Expr::Range(Box::new(l), Box::new(r))
                }
                2 => {
                    let mut long = vec![Val::Int(self.small_int())];
                    long.extend(items.iter().cloned());
                    long.push(Val::Null);
                    let sa = self.expr_eq(&Val::Int(1), "slice-start", &c, pre);
                    let sb = self.expr_eq(&Val::Int(1 + items.len() as i64), "slice-end", &c, pre);
                    let base = self.expr_eq(&Val::List(long), "sliced-value", &c, pre);
                    Expr::Slice(Box::new(base), Some(Box::new(sa)), Some(Box::new(sb)))
                }
                _ => {
                    // literal with item expressions and spread groups
                    let mut out = vec![];
                    let mut i = 0;
                    while i < items.len() {
                        if self.rng.chance(1, 4) {
                            let k = 1 + self.rng.usize_below(items.len() - i);
                            let e = self.expr_eq(&Val::List(items[i..i + k].to_vec()), "list-spread", &c, pre);
                            out.push((e, true));
                            i += k;
                        } else {
                            let e = self.expr_eq(&items[i], "list-item", &c, pre);
                            out.push((e, false));
                            i += 1;
                        }
                    }
                    Expr::List(out)
                }
            },
            Val::Obj(props) => {
                let mut out = vec![];
                let entries: Vec<(&String, &Val)> = props.iter().collect();
                let mut i = 0;
                while i < entries.len() {
                    if self.rng.chance(1, 4) {
                        let mut m = BTreeMap::new();
                        m.insert(entries[i].0.clone(), entries[i].1.clone());
                        let e = self.expr_eq(&Val::Obj(m), "object-spread", &c, pre);
                        out.push(ObjItem::Spread(e));
                    } else {
                        let k = self.expr_eq(&Val::Str(entries[i].0.clone()), "prop-name", &c, pre);
                        let e = self.expr_eq(entries[i].1, "prop-value", &c, pre);
                        out.push(ObjItem::Pair(k, e));
                    }
                    i += 1;
                }
                Expr::Obj(out)
            }
            _ => self.call_site(v, site, cx, pre),
        }
    }

    // A call expression with value `v`: print (for null) or a helper call.
    fn call_site(&mut self, v: &Val, site: &str, cx: &Cx, pre: &mut Vec<Stmt>) -> Expr {
        let mut c = cx.clone();
        c.edepth += 1;
        if *v == Val::Null && (self.rng.chance(3, 5) || cx.depth >= self.opts.max_depth || !self.calls_left()) && site != "interp-slot" {
            return self.print_expr(site, &c, pre);
        }
        if cx.depth >= self.opts.max_depth || !self.calls_left() {
            if site == "interp-slot" {
                // must still be a call for the slot; fall through to a trivial helper
            } else {
                return Expr::Lit(v.clone());
            }
        }
        let node = self.node(site);
        let (callee, params, collect) = self.new_helper(v, cx, pre, site == "interp-slot");
        // arguments
        let mut args: Vec<(Expr, bool)> = vec![];
        let nparams = params.len();
        let fixed = if collect { nparams - 1 } else { nparams };
        let mut vals: Vec<Val> = vec![];
        for p in params.iter().take(fixed) {
            vals.push(self.val_for_pat(p));
        }
        if collect {
            for _ in 0..self.rng.usize_below(3) {
                vals.push(self.rand_val(1));
            }
        }
        let simple = site == "interp-slot";
        let mut i = 0;
        while i < vals.len() {
            if !simple && vals.len() - i >= 2 && self.rng.chance(1, 6) {
                let k = 2 + self.rng.usize_below(vals.len() - i - 1);
                let e = self.expr_eq(&Val::List(vals[i..i + k].to_vec()), "arg-spread", &c, pre);
                args.push((e, true));
                i += k;
            } else {
                let e = if simple { Expr::Lit(vals[i].clone()) } else { self.expr_eq(&vals[i], "arg", &c, pre) };
                args.push((e, false));
                i += 1;
            }
        }
        Expr::Call { node, callee, args }
    }

    fn print_expr(&mut self, site: &str, cx: &Cx, pre: &mut Vec<Stmt>) -> Expr {
        let node = self.node(site);
        let v = self.printable();
        let text = format!("{}\n", render(&v));
        let mut c = cx.clone();
        c.edepth += 1;
        let arg = if self.rng.chance(1, 4) && self.calls_left() { self.expr_eq(&v, "arg", &c, pre) } else { Expr::Lit(v) };
        Expr::Print { node, arg: Box::new(arg), text }
    }

    fn val_for_pat(&mut self, p: &Pat) -> Val {
        match p {
            Pat::List(ps, rest) => {
                let mut v: Vec<Val> = ps.iter().map(|q| self.val_for_pat(q)).collect();
                if rest.is_some() {
                    for _ in 0..self.rng.usize_below(3) {
                        v.push(Val::Int(self.small_int()));
                    }
                }
                Val::List(v)
            }
            Pat::Obj(ps, rest) => {
                let mut m = BTreeMap::new();
                for (_, key, q) in ps {
                    let val = self.val_for_pat(q);
                    m.insert(key.clone(), val);
                }
                if rest.is_some() {
                    m.insert("extra".to_string(), Val::Int(1));
                }
                Val::Obj(m)
            }
            _ => self.rand_val(1),
        }
    }

    // A binding pattern (declaration form) and nothing else; key expressions
    // may contain call sites.
    fn pat(&mut self, level: usize, allow_targets: bool, cx: &Cx, pre: &mut Vec<Stmt>) -> Pat {
        let roll = self.rng.below(if level >= 2 { 3 } else { 10 });
        match roll {
            0..=1 => Pat::Var(self.var("p")),
            2 => Pat::Ignore,
            3..=5 => {
                let n = self.rng.usize_below(3);
                let ps = (0..n).map(|_| self.pat(level + 1, allow_targets, cx, pre)).collect();
                let rest = if self.rng.chance(1, 3) { Some(self.var("rest")) } else { None };
                Pat::List(ps, rest)
            }
            6..=7 => {
                let n = 1 + self.rng.usize_below(2);
                let mut ps = vec![];
                let mut used = vec![];
                for _ in 0..n {
                    let k = KEYS[self.rng.usize_below(KEYS.len())];
                    if used.contains(&k) {
                        continue;
                    }
                    used.push(k);
                    let ke = if self.rng.chance(1, 3) && self.calls_left() {
                        let mut c = cx.clone();
                        c.edepth += 1;
                        let e = self.call_site(&Val::Str(k.to_string()), "pattern-key", &c, pre);
                        match e {
                            Expr::Call { .. } => e,
                            _ => Expr::Lit(Val::Str(k.to_string())),
                        }
                    } else {
                        Expr::Lit(Val::Str(k.to_string()))
                    };
                    let q = self.pat(level + 1, allow_targets, cx, pre);
                    ps.push((ke, k.to_string(), q));
                }
                let rest = if self.rng.chance(1, 3) { Some(self.var("rest")) } else { None };
                Pat::Obj(ps, rest)
            }
            _ if allow_targets => self.target(cx, pre),
            _ => Pat::Var(self.var("p")),
        }
    }

    // element / property / range assignment target over a freshly declared
    // container (its declaration goes to `pre`)
    fn target(&mut self, cx: &Cx, pre: &mut Vec<Stmt>) -> Pat {
        let mut c = cx.clone();
        c.edepth += 1;
        match self.rng.below(5) {
            0 | 1 => {
                let xs = self.var("xs");
                let d = self.stmt(StmtKind::Decl(Pat::Var(xs.clone()), Expr::Lit(Val::List(vec![Val::Int(0), Val::Int(0), Val::Int(0)]))));
                pre.push(d);
                let i = self.rng.range(0, 2);
                let idx = self.expr_eq(&Val::Int(i), "target-index", &c, pre);
                Pat::Elem(Box::new(Expr::Var(xs)), Box::new(idx))
            }
            2 => {
                let o = self.var("o");
                let mut m = BTreeMap::new();
                m.insert("k".to_string(), Val::Int(1));
                let d = self.stmt(StmtKind::Decl(Pat::Var(o.clone()), Expr::Lit(Val::Obj(m))));
                pre.push(d);
                let idx = self.expr_eq(&Val::Str("k".to_string()), "target-index", &c, pre);
                Pat::Elem(Box::new(Expr::Var(o)), Box::new(idx))
            }
            3 => {
                // property of an object produced by a call
                let mut m = BTreeMap::new();
                m.insert("k".to_string(), Val::Int(1));
                let base = self.call_site(&Val::Obj(m), "target-base", &c, pre);
                match base {
                    Expr::Call { .. } => Pat::Prop(Box::new(base), "k".to_string()),
                    _ => {
                        let o = self.var("o");
                        let d = self.stmt(StmtKind::Decl(Pat::Var(o.clone()), base));
                        pre.push(d);
                        Pat::Prop(Box::new(Expr::Var(o)), "k".to_string())
                    }
                }
            }
            _ => {
                let o = self.var("o");
                let mut m = BTreeMap::new();
                m.insert("k".to_string(), Val::Int(1));
                let d = self.stmt(StmtKind::Decl(Pat::Var(o.clone()), Expr::Lit(Val::Obj(m))));
                pre.push(d);
                Pat::Prop(Box::new(Expr::Var(o)), "k".to_string())
            }
        }
    }

    // ----------------------------------------------------------- helpers

    // Define a new helper returning `v`; its definition statements go to `pre`.
    fn new_helper(&mut self, v: &Val, cx: &Cx, pre: &mut Vec<Stmt>, simple: bool) -> (Callee, Vec<Pat>, bool) {
        let id = self.fns.len();
        // reserve the slot so nested helpers get later ids
        self.fns.push(FnDef { id, name: None, params: vec![], collect: false, body: vec![], recursive: false });
        let form = if simple { 0 } else { self.rng.below(9) };
        let inner = Cx { depth: cx.depth + 1, edepth: 0, in_fn: true, ret_ok: form != 6, loop_ok: false, ret_val: if form == 6 { None } else { Some(v.clone()) } };

        // parameters
        let mut params = vec![];
        let mut collect = false;
        if !simple {
            let n = self.rng.usize_below(3);
            for _ in 0..n {
                let p = if self.rng.chance(1, 4) { self.pat(1, false, cx, pre) } else { Pat::Var(self.var("a")) };
                params.push(p);
            }
            if self.rng.chance(1, 6) {
                params.push(Pat::Var(self.var("more")));
                collect = true;
            }
        }

        // body
        let nbody = self.rng.usize_below(3);
        let mut body = self.block(nbody, &inner);
        if !self.fn_body_prints(&body) && self.rng.chance(2, 3) {
            let mut bpre = vec![];
            let e = self.print_expr("stmt", &inner, &mut bpre);
            body.extend(bpre);
            let s = self.stmt(StmtKind::Expr(e));
            body.push(s);
        }
        if form == 6 {
            // maker: returns an anonymous function which returns v
            let (anon, _, _) = self.anon_fn(v, &inner, simple);
            let s = self.stmt(StmtKind::Return(Expr::FnLit(anon)));
            body.push(s);
            let name = self.var("mk");
            self.fns[id].name = Some(name.clone());
            self.fns[id].params = params.clone();
            self.fns[id].collect = collect;
            self.fns[id].body = body;
            let d = self.stmt(StmtKind::FnDecl(id));
            pre.push(d);
            // the caller calls mk(args)() : build the inner call here
            let node = self.node("callee");
            let mut args = vec![];
            let fixed = if collect { params.len() - 1 } else { params.len() };
            for p in params.iter().take(fixed) {
                let val = self.val_for_pat(p);
                args.push((Expr::Lit(val), false));
            }
            let inner_call = Expr::Call { node, callee: Callee::Name(id), args };
            let anon_params = self.fns[anon].params.clone();
            let anon_collect = self.fns[anon].collect;
            return (Callee::Returned(Box::new(inner_call), anon), anon_params, anon_collect);
        }
        // return statement
        if *v != Val::Null || self.rng.chance(1, 2) {
            let mut rpre = vec![];
            let e = self.expr_eq(v, "return-expr", &inner, &mut rpre);
            body.extend(rpre);
            let s = self.stmt(StmtKind::Return(e));
            body.push(s);
        }
        self.fns[id].params = params.clone();
        self.fns[id].collect = collect;
        self.fns[id].body = body;
        let callee = match form {
            0..=2 => {
                let name = self.var("h");
                self.fns[id].name = Some(name);
                let d = self.stmt(StmtKind::FnDecl(id));
                pre.push(d);
                Callee::Name(id)
            }
            3 => {
                let name = self.var("vf");
                let d = self.stmt(StmtKind::Decl(Pat::Var(name.clone()), Expr::FnLit(id)));
                pre.push(d);
                self.fns[id].name = None;
                // remember the variable name through a synthetic named binding
                self.bind_names.insert(id, name);
                Callee::Name(id)
            }
            4 => {
                let o = self.var("ob");
                let key = ["m", "run", "go"][self.rng.usize_below(3)].to_string();
                let d = self.stmt(StmtKind::Decl(
                    Pat::Var(o.clone()),
                    Expr::Obj(vec![ObjItem::Pair(Expr::Lit(Val::Str("tag".into())), Expr::Lit(Val::Int(7))), ObjItem::Pair(Expr::Lit(Val::Str(key.clone())), Expr::FnLit(id))]),
                ));
                pre.push(d);
                Callee::Method(o, key, self.rng.chance(1, 2), id)
            }
            5 => {
                let fs = self.var("fs");
                let d = self.stmt(StmtKind::Decl(Pat::Var(fs.clone()), Expr::List(vec![(Expr::Lit(Val::Int(0)), false), (Expr::FnLit(id), false)])));
                pre.push(d);
                Callee::ListElem(fs, 1, id)
            }
            7 => Callee::Anon(id),
            _ => {
                let name = self.var("h");
                self.fns[id].name = Some(name);
                let d = self.stmt(StmtKind::FnDecl(id));
                pre.push(d);
                Callee::Name(id)
            }
        };
        (callee, params, collect)
    }

    fn anon_fn(&mut self, v: &Val, cx: &Cx, simple: bool) -> (usize, Vec<Pat>, bool) {
        let id = self.fns.len();
        self.fns.push(FnDef { id, name: None, params: vec![], collect: false, body: vec![], recursive: false });
        let inner = Cx { depth: cx.depth + 1, edepth: 0, in_fn: true, ret_ok: true, loop_ok: false, ret_val: Some(v.clone()) };
        let mut params = vec![];
        if !simple && self.rng.chance(1, 2) {
            params.push(Pat::Var(self.var("a")));
        }
        let nb0 = self.rng.usize_below(2);
        let mut body = self.block(nb0, &inner);
        let mut bpre = vec![];
        let e = self.print_expr("stmt", &inner, &mut bpre);
        body.extend(bpre);
        let s = self.stmt(StmtKind::Expr(e));
        body.push(s);
        let mut rpre = vec![];
        let e = self.expr_eq(v, "return-expr", &inner, &mut rpre);
        body.extend(rpre);
        let s = self.stmt(StmtKind::Return(e));
        body.push(s);
        self.fns[id].params = params.clone();
        self.fns[id].body = body;
        (id, params, false)
    }

    fn fn_body_prints(&self, body: &[Stmt]) -> bool {
        body.iter().any(|s| matches!(&s.kind, StmtKind::Expr(Expr::Print { .. })))
    }

    // -------------------------------------------------------- statements

    fn block(&mut self, n: usize, cx: &Cx) -> Vec<Stmt> {
        let mut out = vec![];
        for _ in 0..n {
            let ss = self.gen_stmt(cx);
            out.extend(ss);
        }
        out
    }

    fn nonempty_block(&mut self, n: usize, cx: &Cx) -> Vec<Stmt> {
        let mut b = self.block(n, cx);
        if b.is_empty() {
            let mut pre = vec![];
            let e = self.print_expr("stmt", cx, &mut pre);
            b.extend(pre);
            let s = self.stmt(StmtKind::Expr(e));
            b.push(s);
        }
        b
    }

    fn gen_stmt(&mut self, cx: &Cx) -> Vec<Stmt> {
        let mut pre: Vec<Stmt> = vec![];
        let deep = cx.depth + cx.edepth >= self.opts.max_depth + 1 || !self.calls_left();
        let roll = if deep { self.rng.below(4) } else { self.rng.below(22) };
        let c0 = Cx { edepth: 0, ..cx.clone() };
        let kind = match roll {
            0..=2 => {
                let e = self.print_expr("stmt", &c0, &mut pre);
                StmtKind::Expr(e)
            }
            3 => {
                let v = self.rand_val(1);
                let e = self.call_site(&v, "stmt", &c0, &mut pre);
                match e {
                    Expr::Call { .. } | Expr::Print { .. } => StmtKind::Expr(e),
                    other => StmtKind::Decl(Pat::Var(self.var("v")), other),
                }
            }
            4..=5 => {
                let v = self.rand_val(2);
                let e = self.expr_eq(&v, "decl-rhs", &c0, &mut pre);
                StmtKind::Decl(Pat::Var(self.var("v")), e)
            }
            6 => {
                // destructuring declaration
                let p = self.pat(0, true, &c0, &mut pre);
                let v = self.val_for_pat(&p);
                let e = self.expr_eq(&v, "destructure-source", &c0, &mut pre);
                StmtKind::Decl(p, e)
            }
            7 => {
                let name = self.var("v");
                let d = self.stmt(StmtKind::Decl(Pat::Var(name.clone()), Expr::Lit(Val::Null)));
                pre.push(d);
                let v = self.rand_val(2);
                let e = self.expr_eq(&v, "assign-rhs", &c0, &mut pre);
                StmtKind::Assign(Pat::Var(name), e)
            }
            8 => {
                let t = self.target(&c0, &mut pre);
                let iv = self.small_int();
                let e = self.expr_eq(&Val::Int(iv), "assign-rhs", &c0, &mut pre);
                StmtKind::Assign(t, e)
            }
            9 => {
                // range-index assignment xs[a:b] = [..]
                let xs = self.var("xs");
                let d = self.stmt(StmtKind::Decl(Pat::Var(xs.clone()), Expr::Lit(Val::List(vec![Val::Int(0), Val::Int(1), Val::Int(2), Val::Int(3)]))));
                pre.push(d);
                let a = self.rng.range(0, 2);
                let b = self.rng.range(a + 1, 4);
                let ea = self.expr_eq(&Val::Int(a), "target-slice-start", &c0, &mut pre);
                let eb = self.expr_eq(&Val::Int(b), "target-slice-end", &c0, &mut pre);
                let vals: Vec<Val> = (0..(b - a)).map(|_| Val::Int(self.small_int())).collect();
                let e = self.expr_eq(&Val::List(vals), "assign-rhs", &c0, &mut pre);
                StmtKind::Assign(Pat::Slice(Box::new(Expr::Var(xs)), Some(Box::new(ea)), Some(Box::new(eb))), e)
            }
            10 => {
                let (t, is_int) = if self.rng.chance(1, 2) {
                    let name = self.var("n");
                    let d = self.stmt(StmtKind::Decl(Pat::Var(name.clone()), Expr::Lit(Val::Int(1))));
                    pre.push(d);
                    (Pat::Var(name), true)
                } else {
                    (self.target(&c0, &mut pre), true)
                };
                let _ = is_int;
                let iv = self.small_int();
                let e = self.expr_eq(&Val::Int(iv), "opassign-rhs", &c0, &mut pre);
                let op = ["+=", "-=", "*="][self.rng.usize_below(3)];
                StmtKind::OpAssign(t, op, e)
            }
            11..=13 => {
                // if / else if / else with constant conditions
                let nb = 1 + self.rng.usize_below(3);
                let mut branches = vec![];
                let inner = Cx { edepth: 0, ..cx.clone() };
                let taken = self.rng.usize_below(nb + 1);
                for i in 0..nb {
                    let val = i == taken;
                    let site = if i == 0 { "if-cond" } else { "elseif-cond" };
                    let cond = self.expr_eq(&Val::Bool(val), site, &c0, &mut pre);
                    let nb1 = 1 + self.rng.usize_below(2);
                    let body = self.block(nb1, &inner);
                    branches.push((cond, val, body));
                }
                let els = if self.rng.chance(1, 2) || taken == nb {
                    let nb2 = 1 + self.rng.usize_below(2);
                    Some(self.block(nb2, &inner))
                } else {
                    None
                };
                StmtKind::If(branches, els)
            }
            14..=15 => {
                let var = self.var("i");
                let n = self.rng.range(1, 3);
                let extra = if self.rng.chance(1, 2) { Some(self.expr_eq(&Val::Bool(true), "while-cond", &c0, &mut pre)) } else { None };
                let brk = if self.rng.chance(1, 4) { Some(self.rng.range(1, n)) } else { None };
                let cont = if self.rng.chance(1, 4) { Some(self.rng.range(1, n)) } else { None };
                let inner = Cx { edepth: 0, loop_ok: true, ..cx.clone() };
                let nb1 = 1 + self.rng.usize_below(2);
                    let body = self.block(nb1, &inner);
                StmtKind::While { var, n, extra, brk, cont, body }
            }
            16..=17 => {
                let (iter_val, count): (Val, usize) = match self.rng.below(4) {
                    0 => {
                        let w = self.ascii_word();
                        let n = w.len();
                        (Val::Str(w), n)
                    }
                    1 => {
                        let mut m = BTreeMap::new();
                        m.insert("a".to_string(), Val::Int(1));
                        m.insert("b".to_string(), Val::Int(2));
                        (Val::Obj(m), 2)
                    }
                    2 => {
                        let n = self.rng.usize_below(3);
                        (Val::List((0..n as i64).map(Val::Int).collect()), n)
                    }
                    _ => {
                        let n = 1 + self.rng.usize_below(2);
                        (Val::List((0..n).map(|_| self.rand_val(0)).collect()), n)
                    }
                };
                let iter = self.expr_eq(&iter_val, "for-iter", &c0, &mut pre);
                let pat = match self.rng.below(4) {
                    0 => Pat::Var(self.var("kv")),
                    1 => Pat::List(vec![Pat::Ignore, Pat::Var(self.var("v"))], None),
                    _ => Pat::List(vec![Pat::Var(self.var("k")), Pat::Var(self.var("v"))], None),
                };
                let inner = Cx { edepth: 0, loop_ok: true, ..cx.clone() };
                let nb1 = 1 + self.rng.usize_below(2);
                    let body = self.block(nb1, &inner);
                StmtKind::For { pat, iter, count, body }
            }
            18 => {
                let inner = Cx { edepth: 0, ret_ok: false, loop_ok: false, ..cx.clone() };
                let nb3 = 1 + self.rng.usize_below(2);
                let b = self.nonempty_block(nb3, &inner);
                StmtKind::Block(b)
            }
            19 if cx.in_fn && cx.ret_ok && cx.ret_val.is_some() => {
                // early return under a true condition
                let v = cx.ret_val.clone().unwrap();
                let e = self.expr_eq(&v, "return-expr", &c0, &mut pre);
                let r = self.stmt(StmtKind::Return(e));
                StmtKind::If(vec![(Expr::Lit(Val::Bool(true)), true, vec![r])], None)
            }
            20 if cx.depth < self.opts.max_depth => {
                // recursive helper called with a literal depth
                let id = self.fns.len();
                let name = self.var("rec");
                self.fns.push(FnDef { id, name: Some(name), params: vec![Pat::Var("n".to_string())], collect: false, body: vec![], recursive: true });
                let inner = Cx { depth: cx.depth + 1, edepth: 0, in_fn: true, ret_ok: false, loop_ok: false, ret_val: None };
                let mut body = vec![];
                let mut bpre = vec![];
                let e = self.print_expr("stmt", &inner, &mut bpre);
                body.extend(bpre);
                let s = self.stmt(StmtKind::Expr(e));
                body.push(s);
                let rnode = self.node("recursive-call");
                let rc = self.stmt(StmtKind::Expr(Expr::Call { node: rnode, callee: Callee::Name(id), args: vec![(Expr::ParamMinus1, false)] }));
                let s = self.stmt(StmtKind::IfParamPositive(vec![rc]));
                body.push(s);
                if self.rng.chance(1, 2) {
                    let mut bpre = vec![];
                    let e = self.print_expr("stmt", &inner, &mut bpre);
                    body.extend(bpre);
                    let s = self.stmt(StmtKind::Expr(e));
                    body.push(s);
                }
                self.fns[id].body = body;
                let d = self.stmt(StmtKind::FnDecl(id));
                pre.push(d);
                let node = self.node("stmt");
                let d0 = self.rng.range(1, 5);
                StmtKind::Expr(Expr::Call { node, callee: Callee::Name(id), args: vec![(Expr::Lit(Val::Int(d0)), false)] })
            }
            _ => {
                let e = self.print_expr("stmt", &c0, &mut pre);
                StmtKind::Expr(e)
            }
        };
        let s = self.stmt(kind);
        pre.push(s);
        pre
    }

    pub fn program(&mut self) -> Vec<Stmt> {
        let cx = Cx { depth: 0, edepth: 0, in_fn: false, ret_ok: false, loop_ok: false, ret_val: None };
        let n = 2 + self.rng.usize_below(self.opts.top_stmts);
        let mut top = self.block(n, &cx);
        // make sure the program prints at top level at least once
        let mut pre = vec![];
        let e = self.print_expr("stmt", &cx, &mut pre);
        top.extend(pre);
        let s = self.stmt(StmtKind::Expr(e));
        top.push(s);
        top
    }
}

fn is_consecutive(items: &[Val]) -> bool {
    if items.is_empty() {
        return false;
    }
    let mut prev: Option<i64> = None;
    for it in items {
        match it {
            Val::Int(n) => {
                if let Some(p) = prev {
                    if *n != p + 1 {
                        return false;
                    }
                }
                prev = Some(*n);
            }
            _ => return false,
        }
    }
    true
}

pub fn key_of(e: &Expr) -> String {
    match e {
        Expr::Lit(Val::Str(s)) => s.clone(),
        Expr::Call { callee, .. } => format!("__call_{}", callee.fn_id()),
        _ => String::new(),
    }
}
