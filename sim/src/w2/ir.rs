// W2 intermediate representation.  Control flow is static: every condition
// and loop count is a constant the generator knows, every expression is built
// top-down from the value it must have.  The model therefore needs no
// interpreter, only the order in which call sites are evaluated.

use std::collections::BTreeMap;

pub type NodeId = usize;

#[derive(Clone, Debug, PartialEq)]
pub enum Val {
    Null,
    Bool(bool),
    Int(i64),
    Str(String),
    List(Vec<Val>),
    Obj(BTreeMap<String, Val>),
    Fn(usize),
}

// print's rendering (the documented grammar of C19's second sentence)
pub fn render(v: &Val) -> String {
    match v {
        Val::Null => "<null>".to_string(),
        Val::Bool(b) => format!("{b}"),
        Val::Int(n) => format!("{n}"),
        Val::Str(s) => s.clone(),
        Val::List(items) => {
            let mut s = String::from("[\n");
            for it in items {
                let r = render(it).replace('\n', "\n    ");
                s.push_str(&format!("    {r},\n"));
            }
            s.push(']');
            s
        }
        Val::Obj(props) => {
            let mut s = String::from("{\n");
            for (k, it) in props {
                let r = render(it).replace('\n', "\n    ");
                s.push_str(&format!("    \"{k}\": {r},\n"));
            }
            s.push('}');
            s
        }
        Val::Fn(_) => "<function>".to_string(),
    }
}

#[derive(Clone, Debug)]
pub enum Expr {
    Lit(Val),
    // print(arg); `text` is what it writes (render(value of arg) + "\n")
    Print { node: NodeId, arg: Box<Expr>, text: String },
    Call { node: NodeId, callee: Callee, args: Vec<(Expr, bool)> },
    // `node` is an operator node (site "operator:<kind>"): its position is the operator token
    Bin(NodeId, &'static str, Box<Expr>, Box<Expr>),
    List(Vec<(Expr, bool)>),
    Obj(Vec<ObjItem>),
    Index(Box<Expr>, Box<Expr>),
    Slice(Box<Expr>, Option<Box<Expr>>, Option<Box<Expr>>),
    Range(Box<Expr>, Box<Expr>),
    Prop(Box<Expr>, String),
    Len(Box<Expr>),
    Interp(Vec<InterpPart>),
    Var(String),
    // function literal `fn(params) { body }`
    FnLit(usize),
    // `n - 1` inside a recursive helper
    ParamMinus1,
}

#[derive(Clone, Debug)]
pub enum ObjItem {
    Pair(Expr, Expr),
    Spread(Expr),
}

#[derive(Clone, Debug)]
pub enum InterpPart {
    Text(String),
    Slot(Expr),
}

#[derive(Clone, Debug)]
pub enum Callee {
    Name(usize),                          // identifier bound to fn `id`
    ListElem(String, usize, usize),       // fs[i]      -> fn id
    Method(String, String, bool, usize),  // o.m / o["m"] -> fn id
    Returned(Box<Expr>, usize),           // mk(..)(..) : inner call returns fn id
    Anon(usize),                          // fn(..) {..}(..)
}

impl Callee {
    pub fn fn_id(&self) -> usize {
        match self {
            Callee::Name(f) | Callee::ListElem(_, _, f) | Callee::Method(_, _, _, f) | Callee::Returned(_, f) | Callee::Anon(f) => *f,
        }
    }
}

#[derive(Clone, Debug)]
pub enum Pat {
    Var(String),
    Ignore,
    List(Vec<Pat>, Option<String>),
    Obj(Vec<(Expr, String, Pat)>, Option<String>),
    // element / property / range targets
    Elem(Box<Expr>, Box<Expr>),
    Slice(Box<Expr>, Option<Box<Expr>>, Option<Box<Expr>>),
    Prop(Box<Expr>, String),
}

#[derive(Clone, Debug)]
pub struct Stmt {
    pub id: usize,
    pub kind: StmtKind,
}

#[derive(Clone, Debug)]
pub enum StmtKind {
    Expr(Expr),
    Decl(Pat, Expr),
    Assign(Pat, Expr),
    OpAssign(Pat, &'static str, Expr),
    // branches: (condition, its constant value, body)
    If(Vec<(Expr, bool, Vec<Stmt>)>, Option<Vec<Stmt>>),
    // i := 0 ; while i < n [&& extra] { i += 1 ; [if i == b {break}] [if i == c {continue}] body }
    While { var: String, n: i64, extra: Option<Expr>, brk: Option<i64>, cont: Option<i64>, body: Vec<Stmt> },
    // for pat in iter { body } ; `count` elements
    For { pat: Pat, iter: Expr, count: usize, body: Vec<Stmt> },
    Block(Vec<Stmt>),
    FnDecl(usize),
    Return(Expr),
    // if n > 0 { <call of the enclosing recursive fn with n - 1> }
    IfParamPositive(Vec<Stmt>),
}

#[derive(Clone, Debug)]
pub struct FnDef {
    pub id: usize,
    pub name: Option<String>, // declared name (`fn name`), None for anonymous
    pub params: Vec<Pat>,
    pub collect: bool,
    pub body: Vec<Stmt>,
    pub recursive: bool,
}

impl FnDef {
    pub fn display(&self) -> String {
        match &self.name {
            Some(n) => n.clone(),
            None => "<unnamed function>".to_string(),
        }
    }
}

#[derive(Clone, Debug)]
pub struct Prog {
    pub fns: Vec<FnDef>,
    pub top: Vec<Stmt>,
    pub n_nodes: usize,
    pub n_stmts: usize,
    // syntactic position label per call node
    pub site: Vec<String>,
}
