// W2 model: the order in which call sites are evaluated, and the call chain at
// each dynamic print.  No values are computed; the generator fixed them.

use super::ir::*;

#[derive(Clone, Debug)]
pub struct PrintEvent {
    pub text: String,
    pub end: u64,                       // cumulative stdout offset after this print
    pub node: NodeId,                   // the print call
    pub func: Option<String>,           // function containing the print (None at root)
    pub chain: Vec<(NodeId, String)>,   // active calls, innermost first: (call node, name of function containing the call)
    pub chain_in_slot: Vec<bool>,       // per chain element: the call is written inside an interpolation slot
    pub in_interp: bool,                // print or an active call sits inside an interpolation slot
    pub top_stmt: usize,                // index of the top-level statement being executed
    pub loop_iter: bool,                // inside a loop body
    pub via_return: bool,               // the print or an active call is evaluated inside a `return` expression
}

// A call of a named function about to be made (arguments already evaluated):
// where an undefined-name failure of that call would surface.
#[derive(Clone, Debug)]
pub struct CallEvent {
    pub node: NodeId,
    pub off: u64, // stdout bytes written before
    pub func: Option<String>,
    pub chain: Vec<(NodeId, String)>,
    pub chain_in_slot: Vec<bool>,
    pub in_interp: bool,
    pub via_return: bool,
}

enum Flow {
    Normal,
    Break,
    Continue,
    Return,
}

struct Frame {
    fn_id: usize,
    call_node: NodeId,
    n: i64,
    interp: bool,
    in_return: bool,
}

pub struct Walker<'a> {
    prog: &'a Prog,
    removed: &'a std::collections::BTreeSet<usize>,
    frames: Vec<Frame>,
    interp: usize,
    loops: usize,
    root_in_return: bool,
    top_stmt: usize,
    pub events: Vec<PrintEvent>,
    pub calls: Vec<CallEvent>,
    // first evaluation of each binary operator (operands already evaluated):
    // where a type error of that operator would surface
    pub ops: Vec<CallEvent>,
    ops_seen: std::collections::BTreeSet<NodeId>,
    off: u64,
    pub overflow: bool,
}

const MAX_EVENTS: usize = 400;

impl<'a> Walker<'a> {
    pub fn new(prog: &'a Prog, removed: &'a std::collections::BTreeSet<usize>) -> Walker<'a> {
        Walker { prog, removed, frames: vec![], interp: 0, loops: 0, root_in_return: false, top_stmt: 0, events: vec![], calls: vec![], ops: vec![], ops_seen: Default::default(), off: 0, overflow: false }
    }

    pub fn run(&mut self) {
        for (i, s) in self.prog.top.iter().enumerate() {
            self.top_stmt = i;
            self.stmt(s);
            if self.overflow {
                return;
            }
        }
    }

    fn emit(&mut self, node: NodeId, text: &str) {
        if self.events.len() >= MAX_EVENTS {
            self.overflow = true;
            return;
        }
        self.off += text.len() as u64;
        let mut chain = vec![];
        let mut chain_in_slot = vec![];
        for i in (0..self.frames.len()).rev() {
            chain_in_slot.push(self.frames[i].interp);
            let container = if i == 0 { "<root>".to_string() } else { self.prog.fns[self.frames[i - 1].fn_id].display() };
            chain.push((self.frames[i].call_node, container));
        }
        let func = self.frames.last().map(|f| self.prog.fns[f.fn_id].display());
        let in_interp = self.interp > 0 || self.frames.iter().any(|f| f.interp);
        self.events.push(PrintEvent {
            text: text.to_string(),
            end: self.off,
            node,
            func,
            chain,
            chain_in_slot,
            in_interp,
            top_stmt: self.top_stmt,
            loop_iter: self.loops > 0,
            via_return: self.root_in_return || self.frames.iter().any(|f| f.in_return),
        });
    }

    // the call context at this instant, for a failure raised at `node`
    fn context_event(&self, node: NodeId) -> CallEvent {
        let mut chain = vec![];
        let mut chain_in_slot = vec![];
        for i in (0..self.frames.len()).rev() {
            chain_in_slot.push(self.frames[i].interp);
            let container = if i == 0 { "<root>".to_string() } else { self.prog.fns[self.frames[i - 1].fn_id].display() };
            chain.push((self.frames[i].call_node, container));
        }
        CallEvent {
            node,
            off: self.off,
            func: self.frames.last().map(|f| self.prog.fns[f.fn_id].display()),
            chain,
            chain_in_slot,
            in_interp: self.interp > 0 || self.frames.iter().any(|f| f.interp),
            via_return: self.root_in_return || self.frames.iter().any(|f| f.in_return),
        }
    }

    fn stmts(&mut self, ss: &[Stmt]) -> Flow {
        for s in ss {
            match self.stmt(s) {
                Flow::Normal => {}
                f => return f,
            }
            if self.overflow {
                return Flow::Return;
            }
        }
        Flow::Normal
    }

    fn stmt(&mut self, s: &Stmt) -> Flow {
        if self.removed.contains(&s.id) {
            return Flow::Normal;
        }
        match &s.kind {
            StmtKind::Expr(e) => {
                self.expr(e);
                Flow::Normal
            }
            StmtKind::Decl(p, e) | StmtKind::Assign(p, e) | StmtKind::OpAssign(p, _, e) => {
                self.expr(e);
                self.pat(p);
                Flow::Normal
            }
            StmtKind::If(branches, els) => {
                for (cond, val, body) in branches {
                    self.expr(cond);
                    if *val {
                        return self.stmts(body);
                    }
                }
                if let Some(b) = els {
                    return self.stmts(b);
                }
                Flow::Normal
            }
            StmtKind::While { n, extra, brk, cont, body, .. } => {
                let mut i = 0;
                self.loops += 1;
                let mut result = Flow::Normal;
                loop {
                    if let Some(e) = extra {
                        self.expr(e);
                    }
                    if i >= *n || self.overflow {
                        break;
                    }
                    i += 1;
                    if *brk == Some(i) {
                        break;
                    }
                    if *cont == Some(i) {
                        continue;
                    }
                    match self.stmts(body) {
                        Flow::Normal | Flow::Continue => {}
                        Flow::Break => break,
                        Flow::Return => {
                            result = Flow::Return;
                            break;
                        }
                    }
                }
                self.loops -= 1;
                result
            }
            StmtKind::For { pat, iter, count, body } => {
                self.expr(iter);
                self.loops += 1;
                let mut result = Flow::Normal;
                for _ in 0..*count {
                    self.pat(pat);
                    match self.stmts(body) {
                        Flow::Normal | Flow::Continue => {}
                        Flow::Break => break,
                        Flow::Return => {
                            result = Flow::Return;
                            break;
                        }
                    }
                    if self.overflow {
                        break;
                    }
                }
                self.loops -= 1;
                result
            }
            StmtKind::Block(b) => {
                // return/break/continue are never generated directly inside a bare block
                self.stmts(b);
                Flow::Normal
            }
            StmtKind::FnDecl(_) => Flow::Normal,
            StmtKind::Return(e) => {
                if let Some(f) = self.frames.last_mut() {
                    f.in_return = true;
                } else {
                    self.root_in_return = true;
                }
                self.expr(e);
                if let Some(f) = self.frames.last_mut() {
                    f.in_return = false;
                } else {
                    self.root_in_return = false;
                }
                Flow::Return
            }
            StmtKind::IfParamPositive(body) => {
                let n = self.frames.last().map(|f| f.n).unwrap_or(0);
                if n > 0 {
                    return self.stmts(body);
                }
                Flow::Normal
            }
        }
    }

    fn pat(&mut self, p: &Pat) {
        match p {
            Pat::Var(_) | Pat::Ignore => {}
            Pat::List(ps, _) => {
                for q in ps {
                    self.pat(q);
                }
            }
            Pat::Obj(ps, _) => {
                for (k, _, q) in ps {
                    self.expr(k);
                    self.pat(q);
                }
            }
            Pat::Elem(base, idx) => {
                self.expr(base);
                self.expr(idx);
            }
            Pat::Slice(base, a, b) => {
                self.expr(base);
                if let Some(a) = a {
                    self.expr(a);
                }
                if let Some(b) = b {
                    self.expr(b);
                }
            }
            Pat::Prop(base, _) => self.expr(base),
        }
    }

    fn expr(&mut self, e: &Expr) {
        if self.overflow {
            return;
        }
        match e {
            Expr::Lit(_) | Expr::Var(_) | Expr::FnLit(_) | Expr::ParamMinus1 => {}
            Expr::Print { node, arg, text } => {
                self.expr(arg);
                self.emit(*node, text);
            }
            Expr::Call { node, callee, args } => {
                for (a, _) in args {
                    self.expr(a);
                }
                if let Callee::Returned(inner, _) = callee {
                    self.expr(inner);
                }
                if !matches!(callee, Callee::Anon(_) | Callee::Returned(..)) {
                    if self.calls.len() < 4 * MAX_EVENTS {
                        let ev = self.context_event(*node);
                        self.calls.push(ev);
                    }
                }
                let fid = callee.fn_id();
                let f = &self.prog.fns[fid];
                let n = if f.recursive {
                    match args.first() {
                        Some((Expr::Lit(Val::Int(d)), _)) => *d,
                        Some((Expr::ParamMinus1, _)) => self.frames.last().map(|fr| fr.n - 1).unwrap_or(0),
                        _ => 0,
                    }
                } else {
                    0
                };
                self.frames.push(Frame { fn_id: fid, call_node: *node, n, interp: self.interp > 0, in_return: false });
                let saved_interp = self.interp;
                self.interp = 0;
                let saved_loops = self.loops;
                self.loops = 0;
                for p in &f.params {
                    self.pat(p);
                }
                self.stmts(&f.body);
                self.loops = saved_loops;
                self.interp = saved_interp;
                self.frames.pop();
            }
            Expr::Bin(node, _, l, r) => {
                self.expr(l);
                self.expr(r);
                if !self.overflow && self.ops_seen.insert(*node) {
                    let ev = self.context_event(*node);
                    self.ops.push(ev);
                }
            }
            Expr::List(items) => {
                for (it, _) in items {
                    self.expr(it);
                }
            }
            Expr::Obj(items) => {
                for it in items {
                    match it {
                        ObjItem::Pair(k, v) => {
                            self.expr(k);
                            self.expr(v);
                        }
                        ObjItem::Spread(x) => self.expr(x),
                    }
                }
            }
            Expr::Index(b, i) => {
                self.expr(b);
                self.expr(i);
            }
            Expr::Slice(b, s, t) => {
                // seed evaluates the bounds before the sliced value
                if let Some(s) = s {
                    self.expr(s);
                }
                if let Some(t) = t {
                    self.expr(t);
                }
                self.expr(b);
            }
            Expr::Range(a, b) => {
                self.expr(a);
                self.expr(b);
            }
            Expr::Prop(b, _) | Expr::Len(b) => self.expr(b),
            Expr::Interp(parts) => {
                for p in parts {
                    if let InterpPart::Slot(x) = p {
                        self.interp += 1;
                        self.expr(x);
                        self.interp -= 1;
                    }
                }
            }
        }
    }
}
