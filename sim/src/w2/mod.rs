// W2: call-tree programs with a call-chain model and a layout printer.

pub mod gen;
pub mod ir;
pub mod print;
pub mod walk;

pub use gen::GenOpts;
pub use print::Space;
pub use walk::{CallEvent, PrintEvent};

use crate::engine::Case;
use crate::programs::Picked;
use crate::rng::Rng;
use serde_json::{json, Value as J};
use std::collections::BTreeSet;

pub struct W2Prog {
    pub text: Vec<u8>,
    pub events: Vec<PrintEvent>,
    pub stdout: Vec<u8>,
    pub pos: Vec<Option<(u64, u64)>>,
    pub tok_off: Vec<Option<u64>>,
    pub calls: Vec<CallEvent>,
    pub ops: Vec<CallEvent>,
    pub feats: Vec<Vec<String>>,
    pub site: Vec<String>,
    pub spaces: Vec<Space>,
    pub n_stmts: usize,
    pub top_ids: Vec<usize>,
    pub overflow: bool,
    pub lines: u64,
}

impl W2Prog {
    // Serialise the model so that a replay file does not depend on the
    // generator version that produced it.
    pub fn to_json(&self) -> J {
        json!({
            "text_hex": crate::plan::hex(&self.text),
            "events": self.events.iter().map(|e| json!({
                "text": e.text, "end": e.end, "node": e.node, "func": e.func,
                "chain": e.chain.iter().map(|(n, c)| json!([n, c])).collect::<Vec<_>>(),
                "chain_in_slot": e.chain_in_slot, "in_interp": e.in_interp, "top_stmt": e.top_stmt,
                "loop_iter": e.loop_iter, "via_return": e.via_return,
            })).collect::<Vec<_>>(),
            "calls": self.calls.iter().map(|e| json!({
                "node": e.node, "off": e.off, "func": e.func,
                "chain": e.chain.iter().map(|(n, c)| json!([n, c])).collect::<Vec<_>>(),
                "chain_in_slot": e.chain_in_slot, "in_interp": e.in_interp, "via_return": e.via_return,
            })).collect::<Vec<_>>(),
            "ops": self.ops.iter().map(|e| json!({
                "node": e.node, "off": e.off, "func": e.func,
                "chain": e.chain.iter().map(|(n, c)| json!([n, c])).collect::<Vec<_>>(),
                "chain_in_slot": e.chain_in_slot, "in_interp": e.in_interp, "via_return": e.via_return,
            })).collect::<Vec<_>>(),
            "pos": self.pos.iter().map(|p| p.map(|(l, c)| json!([l, c])).unwrap_or(J::Null)).collect::<Vec<_>>(),
            "tok_off": self.tok_off,
            "feats": self.feats,
            "site": self.site,
            "spaces": self.spaces.iter().map(|s| json!([s.off, s.line, s.col, s.after_first_print, s.top_stmt, s.stmt_level, s.next_len])).collect::<Vec<_>>(),
            "n_stmts": self.n_stmts, "top_ids": self.top_ids, "lines": self.lines,
        })
    }

    pub fn from_json(j: &J) -> Option<W2Prog> {
        let chain_of = |v: &J| -> Vec<(usize, String)> {
            v.as_array().map(|a| a.iter().filter_map(|x| Some((x.get(0)?.as_u64()? as usize, x.get(1)?.as_str()?.to_string()))).collect()).unwrap_or_default()
        };
        let bools = |v: &J| -> Vec<bool> { v.as_array().map(|a| a.iter().filter_map(J::as_bool).collect()).unwrap_or_default() };
        let ostr = |v: &J| -> Option<String> { v.as_str().map(str::to_string) };
        let text = crate::plan::unhex(j.get("text_hex")?.as_str()?)?;
        let mut events = vec![];
        for e in j.get("events")?.as_array()? {
            events.push(PrintEvent {
                text: e.get("text")?.as_str()?.to_string(),
                end: e.get("end")?.as_u64()?,
                node: e.get("node")?.as_u64()? as usize,
                func: ostr(e.get("func")?),
                chain: chain_of(e.get("chain")?),
                chain_in_slot: bools(e.get("chain_in_slot")?),
                in_interp: e.get("in_interp")?.as_bool()?,
                top_stmt: e.get("top_stmt")?.as_u64()? as usize,
                loop_iter: e.get("loop_iter")?.as_bool()?,
                via_return: e.get("via_return")?.as_bool()?,
            });
        }
        let mut calls = vec![];
        let mut ops = vec![];
        for (key, target) in [("calls", &mut calls), ("ops", &mut ops)] {
          for e in j.get(key).and_then(J::as_array).map(|a| a.as_slice()).unwrap_or(&[]) {
            target.push(CallEvent {
                node: e.get("node")?.as_u64()? as usize,
                off: e.get("off")?.as_u64()?,
                func: ostr(e.get("func")?),
                chain: chain_of(e.get("chain")?),
                chain_in_slot: bools(e.get("chain_in_slot")?),
                in_interp: e.get("in_interp")?.as_bool()?,
                via_return: e.get("via_return")?.as_bool()?,
            });
          }
        }
        let pos = j.get("pos")?.as_array()?.iter().map(|p| Some((p.get(0)?.as_u64()?, p.get(1)?.as_u64()?))).collect();
        let tok_off = j.get("tok_off")?.as_array()?.iter().map(J::as_u64).collect();
        let feats = j.get("feats")?.as_array()?.iter().map(|f| f.as_array().map(|a| a.iter().filter_map(|x| x.as_str().map(str::to_string)).collect()).unwrap_or_default()).collect();
        let site = j.get("site")?.as_array()?.iter().filter_map(|x| x.as_str().map(str::to_string)).collect();
        let mut spaces = vec![];
        for s in j.get("spaces")?.as_array()? {
            spaces.push(Space { off: s.get(0)?.as_u64()?, line: s.get(1)?.as_u64()?, col: s.get(2)?.as_u64()?, after_first_print: s.get(3)?.as_bool()?, top_stmt: s.get(4)?.as_u64()? as usize, stmt_level: s.get(5).and_then(J::as_bool).unwrap_or(false), next_len: s.get(6).and_then(J::as_u64).unwrap_or(0) as u32 });
        }
        let mut stdout = vec![];
        for e in &events {
            stdout.extend_from_slice(e.text.as_bytes());
        }
        Some(W2Prog {
            text,
            events,
            stdout,
            pos,
            tok_off,
            calls,
            ops,
            feats,
            site,
            spaces,
            n_stmts: j.get("n_stmts")?.as_u64()? as usize,
            top_ids: j.get("top_ids")?.as_array()?.iter().filter_map(|x| x.as_u64().map(|v| v as usize)).collect(),
            overflow: false,
            lines: j.get("lines")?.as_u64()?,
        })
    }
}

pub fn build(aux: &J) -> W2Prog {
    if let Some(m) = aux.get("model") {
        if let Some(p) = W2Prog::from_json(m) {
            return p;
        }
    }
    let seed = aux.get("w2_seed").and_then(J::as_u64).unwrap_or(1);
    let lseed = aux.get("layout_seed").and_then(J::as_u64).unwrap_or(1);
    let layout_on = aux.get("layout").and_then(J::as_bool).unwrap_or(false);
    let removed: BTreeSet<usize> = aux
        .get("removed")
        .and_then(J::as_array)
        .map(|a| a.iter().filter_map(|x| x.as_u64().map(|v| v as usize)).collect())
        .unwrap_or_default();
    let opts = GenOpts {
        max_calls: aux.get("max_calls").and_then(J::as_u64).unwrap_or(36) as usize,
        max_depth: aux.get("max_depth").and_then(J::as_u64).unwrap_or(4) as usize,
        top_stmts: aux.get("top_stmts").and_then(J::as_u64).unwrap_or(6) as usize,
        interp: aux.get("interp").and_then(J::as_bool).unwrap_or(true),
    };
    let mut rng = Rng::new(seed);
    let mut g = gen::Gen::new(&mut rng, opts);
    let top = g.program();
    let n_stmts = g.n_stmts();
    let names = g.bind_names.clone();
    let prog = ir::Prog { fns: g.fns.clone(), top, n_nodes: g.site.len(), n_stmts, site: g.site.clone() };
    let mut w = walk::Walker::new(&prog, &removed);
    w.run();
    let overflow = w.overflow;
    let calls = w.calls.clone();
    let ops = w.ops.clone();
    let events = w.events;
    let mut stdout = vec![];
    for e in &events {
        stdout.extend_from_slice(e.text.as_bytes());
    }
    let mut lrng = Rng::new(lseed);
    let lay = if layout_on { print::Layout::random(&mut lrng) } else { print::Layout::plain() };
    let mut p = print::Printer::new(&prog, &names, &removed, lrng, lay);
    p.program();
    let first_top = events.first().map(|e| e.top_stmt).unwrap_or(usize::MAX);
    let mut spaces = p.spaces.clone();
    for s in &mut spaces {
        s.after_first_print = first_top != usize::MAX && s.top_stmt > first_top;
    }
    let text = p.out.clone().into_bytes();
    let lines = text.iter().filter(|b| **b == b'\n').count() as u64 + 1;
    W2Prog {
        text,
        events,
        stdout,
        pos: p.pos.clone(),
        tok_off: p.tok_off.clone(),
        calls,
        ops,
        feats: p.feats.clone(),
        site: prog.site.clone(),
        spaces,
        n_stmts,
        top_ids: prog.top.iter().map(|s| s.id).collect(),
        overflow,
        lines,
    }
}

pub fn pick_with(rng: &mut Rng, opts: &GenOpts, layout: bool) -> Picked {
    for _ in 0..30 {
        let aux = json!({
            "w2_seed": rng.next_u64() >> 1,
            "layout_seed": rng.next_u64() >> 1,
            "layout": layout,
            "removed": [],
            "max_calls": opts.max_calls, "max_depth": opts.max_depth, "top_stmts": opts.top_stmts, "interp": opts.interp,
        });
        let p = build(&aux);
        if p.overflow || p.events.is_empty() || p.events.len() > 160 || (p.text.len() > 24_000 && !p.feats.iter().flatten().any(|f| f == "bulk-padding")) || p.text.len() > 400_000 {
            continue;
        }
        return Picked { label: format!("W2:{}", aux["w2_seed"]), program: p.text, aux };
    }
    let aux = json!({"w2_seed": 1, "layout_seed": 1, "layout": false, "removed": [], "max_calls": 4, "max_depth": 1, "top_stmts": 1, "interp": false});
    let p = build(&aux);
    Picked { label: "W2:fallback".into(), program: p.text, aux }
}

pub fn pick(rng: &mut Rng, opts: &GenOpts) -> Picked {
    let layout = rng.chance(1, 2);
    pick_with(rng, opts, layout)
}

// IR-level shrinking: remove one statement at a time (top-level first); the
// model and the text are recomputed from the shrunk IR.
pub fn shrink_cases(case: &Case) -> Vec<Case> {
    let mut case = case.clone();
    if let Some(o) = case.aux.as_object_mut() {
        o.remove("model");
    }
    let case = &case;
    let base = build(&case.aux);
    if base.text != case.program {
        // the generator changed since this case was recorded: nothing to shrink with
        return vec![];
    }
    let removed: Vec<u64> = case.aux.get("removed").and_then(J::as_array).map(|a| a.iter().filter_map(J::as_u64).collect()).unwrap_or_default();
    let mut order: Vec<usize> = base.top_ids.iter().rev().copied().collect();
    for id in (1..=base.n_stmts).rev() {
        if !order.contains(&id) {
            order.push(id);
        }
    }
    let mut out = vec![];
    // a corrupted call name / operator is identified by its node, which survives the
    // removal of other statements: its byte offset is recomputed for every candidate
    let flip_node: Option<usize> = case.plan.items.iter().find_map(|i| match i {
        crate::plan::Item::Flip { off, .. } => (0..base.tok_off.len()).rev().find(|n| base.tok_off[*n] == Some(*off)),
        _ => None,
    });
    let has_flip = case.plan.items.iter().any(|i| matches!(i, crate::plan::Item::Flip { .. }));
    let retarget = |c: &mut Case, p: &W2Prog| -> bool {
        if !has_flip {
            return true;
        }
        let node = match flip_node {
            Some(n) => n,
            None => {
                // a corrupted space has no identity of its own: keep candidates that leave
                // the text up to and including that byte untouched (later statements removed)
                let off = c.plan.items.iter().find_map(|i| if let crate::plan::Item::Flip { off, .. } = i { Some(*off as usize) } else { None }).unwrap_or(usize::MAX);
                return off < p.text.len() && off < base.text.len() && p.text[..=off] == base.text[..=off];
            }
        };
        match p.tok_off.get(node).copied().flatten() {
            Some(new_off) => {
                for it in c.plan.items.iter_mut() {
                    if let crate::plan::Item::Flip { off, .. } = it {
                        *off = new_off;
                    }
                }
                true
            }
            None => false,
        }
    };
    // plain layout first
    if case.aux.get("layout").and_then(J::as_bool).unwrap_or(false) {
        let mut aux = case.aux.clone();
        aux["layout"] = json!(false);
        let p = build(&aux);
        let mut c = case.clone();
        c.aux = aux;
        if retarget(&mut c, &p) {
            c.program = p.text;
            out.push(c);
        }
    }
    for id in order {
        if removed.contains(&(id as u64)) {
            continue;
        }
        let mut aux = case.aux.clone();
        let mut r = removed.clone();
        r.push(id as u64);
        aux["removed"] = json!(r);
        let p = build(&aux);
        if p.text == base.text || p.events.is_empty() {
            continue;
        }
        let mut c = case.clone();
        c.aux = aux;
        if !retarget(&mut c, &p) {
            continue;
        }
        c.program = p.text;
        out.push(c);
        if out.len() >= 80 {
            break;
        }
    }
    out
}
