// One simulated run: materialise the world in a private scratch directory,
// fork/exec the real `seed` binary with the shim preloaded and the fault plan
// in its environment, wait, and collect transcript + event log.

use crate::plan::Plan;
use crate::world::World;
use std::ffi::{CString, OsStr, OsString};
use std::fs;
use std::io::Read;
use std::os::fd::{AsRawFd, FromRawFd, IntoRawFd, OwnedFd, RawFd};
use std::os::unix::ffi::{OsStrExt, OsStringExt};
use std::path::{Path, PathBuf};
use std::sync::Mutex;
use std::time::{Duration, Instant};

pub const LOG_FD: i32 = 250;
pub const HANG_SECS: u64 = 8;

#[derive(Clone, Debug, PartialEq)]
pub enum Status {
    Exit(i32),
    Signal(i32),
    Hang,
}

impl Status {
    pub fn render(&self) -> String {
        match self {
            Status::Exit(c) => format!("exit:{c}"),
            Status::Signal(s) => format!("signal:{s}"),
            Status::Hang => "hang".to_string(),
        }
    }
}

#[derive(Clone, Debug, PartialEq)]
pub struct Event {
    pub seq: u64,
    pub kind: char,
    pub fd: i32,
    pub req: i64,
    pub ret: i64,
    pub errno: i32,
    pub act: String,
    pub data: Vec<u8>,
}

impl Event {
    pub fn render(&self) -> String {
        format!(
            "{} {} fd={} req={} ret={} errno={} act={} data={}",
            self.seq,
            self.kind,
            self.fd,
            self.req,
            self.ret,
            self.errno,
            self.act,
            String::from_utf8_lossy(&self.data).escape_debug()
        )
    }
}

#[derive(Clone, Debug)]
pub struct RunResult {
    pub status: Status,
    // bytes the sinks accepted, reconstructed from the shim log (program order)
    pub stdout: Vec<u8>,
    pub stderr: Vec<u8>,
    // what the real sink holds (None when the sink keeps nothing)
    pub sink_stdout: Option<Vec<u8>>,
    pub sink_stderr: Option<Vec<u8>>,
    pub events: Vec<Event>,
    pub argv1: Vec<u8>,
    pub cwd: PathBuf,
    pub abs_script: Vec<u8>,
    pub seam_ok: bool,
}

impl RunResult {
    // fd-1 and fd-2 bytes interleaved in program order (what 2>&1 shows)
    pub fn merged(&self) -> Vec<u8> {
        let mut out = vec![];
        for e in &self.events {
            if e.kind == 'W' && e.ret > 0 {
                out.extend_from_slice(&e.data);
            }
        }
        out
    }

    pub fn digest(&self) -> u64 {
        let mut s = String::new();
        s.push_str(&self.status.render());
        for e in &self.events {
            s.push_str(&format!("|{}{}:{}:{}:{}:{}", e.kind, e.fd, e.req, e.ret, e.errno, e.act));
        }
        let mut h = crate::rng::fnv1a(s.as_bytes());
        h ^= crate::rng::fnv1a(&self.stdout).rotate_left(17);
        h ^= crate::rng::fnv1a(&self.stderr).rotate_left(31);
        h
    }

    // hash of the event-kind sequence ("distinct I/O histories")
    pub fn history_shape(&self) -> u64 {
        let mut s = String::new();
        for e in &self.events {
            s.push(e.kind);
            if e.kind == 'W' {
                s.push_str(&e.fd.to_string());
            }
            if e.ret < 0 {
                s.push_str(&format!("!{}", e.errno));
            } else if e.act != "-" {
                s.push('~');
            }
        }
        crate::rng::fnv1a(s.as_bytes())
    }
}

pub struct Config {
    pub exe: PathBuf,
    pub shim: PathBuf,
    pub scratch: PathBuf,
}

// hang watchdog: (pid, start)
static WATCH: Mutex<Vec<(i32, Instant)>> = Mutex::new(Vec::new());
static HUNG: Mutex<Vec<i32>> = Mutex::new(Vec::new());

pub fn start_watchdog() {
    std::thread::spawn(|| loop {
        std::thread::sleep(Duration::from_millis(200));
        let now = Instant::now();
        let w = WATCH.lock().unwrap();
        for (pid, start) in w.iter() {
            if now.duration_since(*start) > Duration::from_secs(HANG_SECS) {
                HUNG.lock().unwrap().push(*pid);
                unsafe {
                    libc::kill(*pid, libc::SIGKILL);
                }
            }
        }
    });
}

fn cwd_component(kind: u8) -> Vec<PathBuf> {
    match kind {
        1 => vec![PathBuf::from("with space")],
        2 => vec![PathBuf::from("ünï-cödé-目录")],
        3 => vec![PathBuf::from("L".repeat(200))],
        4 => vec![PathBuf::from("M".repeat(250)), PathBuf::from("N".repeat(250)), PathBuf::from("O".repeat(100))],
        // a component that is not valid UTF-8 (a Latin-1 name)
        5 => vec![PathBuf::from(OsString::from_vec(b"caf\xe9 d\xfcr".to_vec()))],
        _ => vec![PathBuf::from("d0")],
    }
}

fn file_name(kind: u8) -> OsString {
    match kind {
        1 => OsString::from("prog with space.sd"),
        2 => OsString::from("ünï✓.sd"),
        3 => OsString::from("x"),
        4 => OsString::from_vec(vec![b'b', 0xff, 0xfe, b'.', b's', b'd']),
        5 => OsString::from("-"),
        _ => OsString::from("a.sd"),
    }
}

pub struct Layout {
    pub cwd: PathBuf,
    pub script: PathBuf, // real location
    pub argv1: OsString,
}

// Build the directory tree for world `w` under `root` (which is emptied first).
pub fn materialise(root: &Path, w: &World, program: &[u8]) -> std::io::Result<Layout> {
    let _ = fs::remove_dir_all(root);
    fs::create_dir_all(root)?;
    let mut base = root.to_path_buf();
    for c in cwd_component(w.cwd_name) {
        base.push(c);
    }
    fs::create_dir_all(&base)?;
    let fname = file_name(w.file_name);
    // directory holding the script, and cwd
    let (cwd, script_dir, mut rel_prefix): (PathBuf, PathBuf, Vec<u8>) = match w.rel {
        1 => {
            let sd = base.join("sub");
            fs::create_dir_all(&sd)?;
            (base.clone(), sd, b"sub/".to_vec())
        }
        2 => {
            let cd = base.join("inner");
            fs::create_dir_all(&cd)?;
            (cd, base.clone(), b"../".to_vec())
        }
        _ => (base.clone(), base.clone(), vec![]),
    };
    let mut script_dir = script_dir;
    if w.spelling == 12 {
        // `lnx/../name`: lnx is a symlink to a directory elsewhere, so the kernel resolves
        // `lnx/..` to that directory's parent, not to cwd; a same-named decoy sits in cwd
        let other = base.join("other");
        fs::create_dir_all(other.join("sub"))?;
        script_dir = other;
        let _ = fs::write(cwd.join(&fname), b"print(\"decoy: textual path collapse\")\n");
    }
    let script = script_dir.join(&fname);
    fs::write(&script, program)?;
    if w.decoys {
        for d in ["print", "a.sd~", "seed", "b.sd", ".seedrc", "lib.sd"] {
            let p = script_dir.join(d);
            if !p.exists() {
                let _ = fs::write(&p, b"print(\"decoy\")\n1()\n");
            }
            let p2 = cwd.join(d);
            if !p2.exists() {
                let _ = fs::write(&p2, b"print(\"decoy\")\n1()\n");
            }
        }
    }
    // a directory the simulator owns, offered to the program through path-valued
    // environment variables ("@home" in extra_env): files the program looks for
    // there can then be created for real
    let home = root.join("home");
    if w.extra_env.iter().any(|(_, v)| v.starts_with("@home")) || w.extra_files.iter().any(|(r, _)| r.starts_with("@home/")) {
        fs::create_dir_all(&home)?;
    }
    for (rel, content) in &w.extra_files {
        // only plain relative paths below cwd or below the simulator-owned home
        let (basedir, rel) = match rel.strip_prefix("@home/") {
            Some(r) => (home.clone(), r.to_string()),
            None => (cwd.clone(), rel.clone()),
        };
        if rel.is_empty() || rel.starts_with('/') || rel.split('/').any(|c| c == ".." || c.is_empty()) {
            continue;
        }
        let p = basedir.join(&rel);
        if p.exists() {
            continue;
        }
        if let Some(parent) = p.parent() {
            let _ = fs::create_dir_all(parent);
        }
        let _ = fs::write(&p, content.as_bytes());
    }
    let mut argv1: Vec<u8> = vec![];
    match w.spelling {
        1 => {
            argv1.extend_from_slice(b"./");
            argv1.append(&mut rel_prefix);
            argv1.extend_from_slice(fname.as_bytes());
        }
        2 => {
            argv1.extend_from_slice(b".//");
            argv1.append(&mut rel_prefix);
            argv1.extend_from_slice(fname.as_bytes());
        }
        3 => {
            fs::create_dir_all(cwd.join("zz"))?;
            argv1.extend_from_slice(b"zz/../");
            argv1.append(&mut rel_prefix);
            argv1.extend_from_slice(fname.as_bytes());
        }
        4 => {
            argv1.extend_from_slice(script.as_os_str().as_bytes());
        }
        5 | 17 => {
            // a symlink (in cwd) to the directory holding the script; 17: the link is
            // literally named `~`, which only a shell would expand
            let lname = if w.spelling == 17 { "~" } else { "ln" };
            let ln = cwd.join(lname);
            let _ = fs::remove_file(&ln);
            std::os::unix::fs::symlink(&script_dir, &ln)?;
            argv1.extend_from_slice(lname.as_bytes());
            argv1.push(b'/');
            argv1.extend_from_slice(fname.as_bytes());
        }
        6 => {
            let ln = cwd.join("link.sd");
            let _ = fs::remove_file(&ln);
            std::os::unix::fs::symlink(&script, &ln)?;
            argv1.extend_from_slice(b"link.sd");
        }
        // fault spellings (C02/C03 only): the kernel itself refuses the open/read
        7 => {
            // trailing slash on a regular file: ENOTDIR
            argv1.append(&mut rel_prefix);
            argv1.extend_from_slice(fname.as_bytes());
            argv1.push(b'/');
        }
        8 => {
            // the script path is a directory: open succeeds, read fails with EISDIR
            fs::create_dir_all(cwd.join("dir.sd"))?;
            argv1.extend_from_slice(b"dir.sd");
        }
        9 => {
            // symlink loop: ELOOP
            let a = cwd.join("loop_a.sd");
            let b = cwd.join("loop_b.sd");
            let _ = fs::remove_file(&a);
            let _ = fs::remove_file(&b);
            std::os::unix::fs::symlink("loop_b.sd", &a)?;
            std::os::unix::fs::symlink("loop_a.sd", &b)?;
            argv1.extend_from_slice(b"loop_a.sd");
        }
        10 => {
            // no such file
            argv1.extend_from_slice(b"missing/nowhere.sd");
        }
        11 => {
            // a path longer than PATH_MAX: ENAMETOOLONG
            for _ in 0..30 {
                argv1.extend_from_slice(&[b'x'; 200]);
                argv1.push(b'/');
            }
            argv1.extend_from_slice(b"a.sd");
        }
        16 => {
            // more `..` than there are directories above cwd: `/..` is `/`
            for _ in 0..40 {
                argv1.extend_from_slice(b"../");
            }
            argv1.extend_from_slice(&script.as_os_str().as_bytes()[1..]);
        }
        13 | 14 | 15 => {
            // the script is what stdin is open on (`seed /dev/stdin < script`); 15: and the
            // file has been unlinked since, so the descriptor is the only way to reach it
            argv1.extend_from_slice(if w.spelling == 14 { b"/proc/self/fd/0".as_slice() } else { b"/dev/stdin".as_slice() });
        }
        12 => {
            let ln = cwd.join("lnx");
            let _ = fs::remove_file(&ln);
            std::os::unix::fs::symlink(script_dir.join("sub"), &ln)?;
            argv1.extend_from_slice(b"lnx/../");
            argv1.extend_from_slice(fname.as_bytes());
        }
        _ => {
            argv1.append(&mut rel_prefix);
            argv1.extend_from_slice(fname.as_bytes());
        }
    }
    Ok(Layout { cwd, script, argv1: OsString::from_vec(argv1) })
}

fn cstr(b: &[u8]) -> CString {
    CString::new(b.to_vec()).expect("NUL in string")
}

fn make_pipe() -> std::io::Result<(OwnedFd, OwnedFd)> {
    let mut fds = [0 as RawFd; 2];
    let r = unsafe { libc::pipe2(fds.as_mut_ptr(), libc::O_CLOEXEC) };
    if r != 0 {
        return Err(std::io::Error::last_os_error());
    }
    unsafe { Ok((OwnedFd::from_raw_fd(fds[0]), OwnedFd::from_raw_fd(fds[1]))) }
}

fn make_socketpair() -> std::io::Result<(OwnedFd, OwnedFd)> {
    let mut fds = [0 as RawFd; 2];
    let r = unsafe { libc::socketpair(libc::AF_UNIX, libc::SOCK_STREAM | libc::SOCK_CLOEXEC, 0, fds.as_mut_ptr()) };
    if r != 0 {
        return Err(std::io::Error::last_os_error());
    }
    unsafe { Ok((OwnedFd::from_raw_fd(fds[0]), OwnedFd::from_raw_fd(fds[1]))) }
}

enum SinkHandle {
    File(PathBuf),
    Stream(std::thread::JoinHandle<Vec<u8>>),
    // pseudo-terminal: the simulator keeps the slave side open until the reader has
    // received every byte the shim saw accepted -- a hang-up while output is still in
    // flight inside the tty layer may discard it (seen once under heavy machine load)
    Pty(std::thread::JoinHandle<Vec<u8>>, std::sync::Arc<std::sync::atomic::AtomicUsize>, OwnedFd),
    Nothing,
}

fn spawn_counting_reader(fd: OwnedFd) -> (std::thread::JoinHandle<Vec<u8>>, std::sync::Arc<std::sync::atomic::AtomicUsize>) {
    let count = std::sync::Arc::new(std::sync::atomic::AtomicUsize::new(0));
    let c2 = count.clone();
    let h = std::thread::spawn(move || {
        let mut f = fs::File::from(fd);
        let mut buf = vec![];
        let mut chunk = [0u8; 4096];
        loop {
            match f.read(&mut chunk) {
                Ok(0) => break,
                Ok(n) => {
                    buf.extend_from_slice(&chunk[..n]);
                    c2.store(buf.len(), std::sync::atomic::Ordering::SeqCst);
                }
                Err(e) if e.kind() == std::io::ErrorKind::Interrupted => continue,
                Err(_) => break,
            }
        }
        buf
    });
    (h, count)
}

fn open_rw(path: &Path) -> std::io::Result<OwnedFd> {
    let f = fs::OpenOptions::new().read(true).write(true).create(true).truncate(true).open(path)?;
    Ok(OwnedFd::from(f))
}

fn spawn_reader(fd: OwnedFd) -> std::thread::JoinHandle<Vec<u8>> {
    std::thread::spawn(move || {
        let mut f = fs::File::from(fd);
        let mut buf = vec![];
        let _ = f.read_to_end(&mut buf);
        buf
    })
}

// child fd plan: Some(fd) to dup2 onto target, None to close the target
struct ChildOpts {
    rlimit: u8,
    sig: u8,
    umask: u8,
    fds: u8,
    uid: u8,
}

struct ChildFds {
    stdin: Option<RawFd>,
    stdout: Option<RawFd>,
    stderr: Option<RawFd>,
    log: RawFd,
}

pub fn parse_log(raw: &[u8]) -> Vec<Event> {
    let mut out = vec![];
    for line in raw.split(|b| *b == b'\n') {
        if line.is_empty() {
            continue;
        }
        let s = String::from_utf8_lossy(line);
        let f: Vec<&str> = s.split(' ').collect();
        if f.len() < 8 {
            continue;
        }
        let data = if f[7] == "-" { vec![] } else { crate::plan::unhex(f[7]).unwrap_or_default() };
        out.push(Event {
            seq: f[0].parse().unwrap_or(0),
            kind: f[1].chars().next().unwrap_or('?'),
            fd: f[2].parse().unwrap_or(-1),
            req: f[3].parse().unwrap_or(0),
            ret: f[4].parse().unwrap_or(0),
            errno: f[5].parse().unwrap_or(0),
            act: f[6].to_string(),
            data,
        });
    }
    out
}

pub fn run(cfg: &Config, worker: usize, program: &[u8], w: &World, plan: &Plan) -> RunResult {
    match run_inner(cfg, worker, program, w, plan) {
        Ok(r) => r,
        Err(e) => {
            eprintln!("HARNESS-ERROR: run failed: {e}");
            std::process::exit(2);
        }
    }
}

fn run_inner(cfg: &Config, worker: usize, program: &[u8], w: &World, plan: &Plan) -> std::io::Result<RunResult> {
    let wroot = cfg.scratch.join(format!("w{worker:03}"));
    let run_root = wroot.join("run");
    let lay = materialise(&run_root, w, program)?;
    let io_dir = wroot.join("io");
    fs::create_dir_all(&io_dir)?;
    if w.script_mode != 0 && lay.script.is_file() {
        use std::os::unix::fs::PermissionsExt;
        let mode = match w.script_mode {
            1 => 0o400,
            2 => 0o755,
            _ => 0o644,
        };
        fs::set_permissions(&lay.script, fs::Permissions::from_mode(mode))?;
        let secs: i64 = match w.script_mode {
            3 => 1,
            4 => 4_102_444_800,
            _ => -1,
        };
        if secs >= 0 {
            let c = cstr(lay.script.as_os_str().as_bytes());
            let tv = [libc::timeval { tv_sec: secs, tv_usec: 0 }, libc::timeval { tv_sec: secs, tv_usec: 0 }];
            unsafe {
                libc::utimes(c.as_ptr(), tv.as_ptr());
            }
        }
    }

    // script identity for the shim
    use std::os::unix::fs::MetadataExt;
    let md = fs::metadata(&lay.script)?;
    let ino = format!("ino={}:{}", md.dev(), md.ino());

    // event log
    let log_path = io_dir.join("log");
    let log_fd = open_rw(&log_path)?;

    // stdin
    let mut keep: Vec<OwnedFd> = vec![];
    let stdin_fd: Option<OwnedFd> = match if (13..=15).contains(&w.spelling) { 100 } else { w.stdin } {
        100 => {
            let f = fs::File::open(&lay.script)?;
            if w.spelling == 15 {
                fs::remove_file(&lay.script)?;
            }
            Some(OwnedFd::from(f))
        }
        1 => None,
        2 => {
            let (r, wr) = make_pipe()?;
            unsafe {
                libc::write(wr.as_raw_fd(), b"stdin data\n".as_ptr().cast(), 11);
            }
            keep.push(wr);
            Some(r)
        }
        3 => {
            let p = io_dir.join("stdin");
            fs::write(&p, b"print(\"from stdin\")\n")?;
            Some(OwnedFd::from(fs::File::open(&p)?))
        }
        4 => {
            // a terminal on stdin
            let mut master: RawFd = -1;
            let mut slave: RawFd = -1;
            let r = unsafe { libc::openpty(&mut master, &mut slave, std::ptr::null_mut(), std::ptr::null(), std::ptr::null()) };
            if r != 0 {
                return Err(std::io::Error::last_os_error());
            }
            unsafe {
                libc::fcntl(master, libc::F_SETFD, libc::FD_CLOEXEC);
                libc::fcntl(slave, libc::F_SETFD, libc::FD_CLOEXEC);
                keep.push(OwnedFd::from_raw_fd(master));
                Some(OwnedFd::from_raw_fd(slave))
            }
        }
        _ => Some(OwnedFd::from(fs::File::open("/dev/null")?)),
    };

    // sinks
    let mk_sink = |kind: u8, name: &str| -> std::io::Result<(Option<OwnedFd>, SinkHandle)> {
        match kind {
            1 => {
                let (r, wr) = make_pipe()?;
                unsafe {
                    libc::fcntl(wr.as_raw_fd(), libc::F_SETPIPE_SZ, 4096);
                }
                Ok((Some(wr), SinkHandle::Stream(spawn_reader(r))))
            }
            2 => Ok((Some(OwnedFd::from(fs::OpenOptions::new().write(true).open("/dev/null")?)), SinkHandle::Nothing)),
            3 => Ok((None, SinkHandle::Nothing)),
            4 => {
                let (a, b) = make_socketpair()?;
                Ok((Some(a), SinkHandle::Stream(spawn_reader(b))))
            }
            5 => {
                // a terminal: pseudo-terminal in raw mode (no output post-processing)
                let mut master: RawFd = -1;
                let mut slave: RawFd = -1;
                let r = unsafe { libc::openpty(&mut master, &mut slave, std::ptr::null_mut(), std::ptr::null(), std::ptr::null()) };
                if r != 0 {
                    return Err(std::io::Error::last_os_error());
                }
                unsafe {
                    let mut t: libc::termios = std::mem::zeroed();
                    libc::tcgetattr(slave, &mut t);
                    libc::cfmakeraw(&mut t);
                    libc::tcsetattr(slave, libc::TCSANOW, &t);
                    libc::fcntl(master, libc::F_SETFD, libc::FD_CLOEXEC);
                    libc::fcntl(slave, libc::F_SETFD, libc::FD_CLOEXEC);
                    let keep_slave = libc::fcntl(slave, libc::F_DUPFD_CLOEXEC, 3);
                    if keep_slave < 0 {
                        return Err(std::io::Error::last_os_error());
                    }
                    let (h, count) = spawn_counting_reader(OwnedFd::from_raw_fd(master));
                    Ok((Some(OwnedFd::from_raw_fd(slave)), SinkHandle::Pty(h, count, OwnedFd::from_raw_fd(keep_slave))))
                }
            }
            6 => {
                // a pipe whose reader has gone away: every write fails with EPIPE
                let (r, wr) = make_pipe()?;
                drop(r);
                Ok((Some(wr), SinkHandle::Nothing))
            }
            7 => {
                // a full device: every write fails with ENOSPC, by the kernel itself
                Ok((Some(OwnedFd::from(fs::OpenOptions::new().write(true).open("/dev/full")?)), SinkHandle::Nothing))
            }
            9 => {
                // descriptor open, but not for writing (`1</dev/null`): every write fails with
                // EBADF, which Rust's std treats on stdout/stderr like a closed descriptor
                Ok((Some(OwnedFd::from(fs::File::open("/dev/null")?)), SinkHandle::Nothing))
            }
            8 => {
                // `>> file`: append mode, file not empty beforehand
                let p = io_dir.join(name);
                fs::write(&p, b"")?;
                let f = fs::OpenOptions::new().append(true).open(&p)?;
                Ok((Some(OwnedFd::from(f)), SinkHandle::File(p)))
            }
            _ => {
                let p = io_dir.join(name);
                Ok((Some(open_rw(&p)?), SinkHandle::File(p)))
            }
        }
    };
    let (out_fd, out_h) = mk_sink(w.stdout, "stdout")?;
    let (err_fd, err_h) = if w.merged { (None, SinkHandle::Nothing) } else { mk_sink(w.stderr, "stderr")? };

    // argv / env
    let exe_c = cstr(cfg.exe.as_os_str().as_bytes());
    let argv0: Vec<u8> = match w.argv0 {
        1 => b"seed".to_vec(),
        2 => b"./odd name".to_vec(),
        _ => cfg.exe.as_os_str().as_bytes().to_vec(),
    };
    let argv = vec![cstr(&argv0), cstr(lay.argv1.as_bytes())];
    let mut env: Vec<Vec<u8>> = vec![];
    let mut push_env = |k: &str, v: &[u8]| {
        let mut e = k.as_bytes().to_vec();
        e.push(b'=');
        e.extend_from_slice(v);
        env.push(e);
    };
    push_env("LD_PRELOAD", cfg.shim.as_os_str().as_bytes());
    let mut plan_s = format!("log={LOG_FD};{ino};rand={}", crate::plan::hex(&w.rand));
    if w.heap_pad > 0 {
        plan_s.push_str(&format!(";heap={}", w.heap_pad));
    }
    // the simulated clock and pid are always owned by the simulator
    plan_s.push_str(&format!(";clock={}:{};pid={}", if w.clock == 0 { 1_700_000_000 } else { w.clock }, if w.clock_step_ms == 0 { 1 } else { w.clock_step_ms }, if w.pid == 0 { 4242 } else { w.pid }));
    let items = plan.encode_items();
    if !items.is_empty() {
        plan_s.push(';');
        plan_s.push_str(&items);
    }
    push_env("SEEDSIM_PLAN", plan_s.as_bytes());
    match w.env_kind {
        1 => {
            push_env("PATH", b"/usr/local/bin:/usr/bin:/bin");
            push_env("HOME", b"/root");
            push_env("USER", b"someone");
            push_env("TERM", b"xterm-256color");
            push_env("SHELL", b"/bin/bash");
            push_env("PWD", b"/somewhere/else");
            push_env("TZ", b"Pacific/Kiritimati");
            // what a CI runner exports
            push_env("CI", b"true");
            push_env("GITHUB_ACTIONS", b"true");
        }
        2 => {
            push_env("SEED_PATH", b"/nonexistent");
            push_env("SEED_DEBUG", b"1");
            push_env("RUST_LOG", b"trace");
            push_env("NO_COLOR", b"1");
            push_env("CLICOLOR_FORCE", b"1");
            push_env("COLUMNS", b"7");
            push_env("TMPDIR", b"/nonexistent");
            push_env("PWD", b"/");
            push_env("HOME", b"");
            push_env("TZ", b":/bad");
        }
        _ => {}
    }
    match w.locale {
        1 => {
            push_env("LANG", b"C");
            push_env("LC_ALL", b"C");
        }
        2 => {
            push_env("LANG", b"en_US.UTF-8");
            push_env("LC_ALL", b"en_US.UTF-8");
        }
        3 => {
            push_env("LANG", b"tr_TR.UTF-8");
            push_env("LC_ALL", b"tr_TR.UTF-8");
            push_env("LC_CTYPE", b"tr_TR.UTF-8");
        }
        4 => {
            push_env("LANG", b"xx_YY.nonsense");
            push_env("LC_ALL", b"zz");
        }
        _ => {}
    }
    match w.rust_backtrace {
        1 => push_env("RUST_BACKTRACE", b"0"),
        2 => push_env("RUST_BACKTRACE", b"1"),
        3 => push_env("RUST_BACKTRACE", b"full"),
        _ => {}
    }
    if w.malloc_mode != 0 {
        let mut t: Vec<&str> = vec![];
        if w.malloc_tun {
            t.push("glibc.malloc.mmap_threshold=4096");
            t.push("glibc.malloc.top_pad=1");
        }
        if w.malloc_mode & 1 != 0 {
            t.push("glibc.malloc.tcache_count=0");
        }
        if w.malloc_mode & 2 != 0 {
            t.push("glibc.malloc.perturb=165");
        }
        push_env("GLIBC_TUNABLES", t.join(":").as_bytes());
        if w.malloc_tun {
            push_env("MALLOC_MMAP_THRESHOLD_", b"4096");
            push_env("MALLOC_ARENA_MAX", b"1");
        }
    } else if w.malloc_tun {
        push_env("GLIBC_TUNABLES", b"glibc.malloc.mmap_threshold=4096:glibc.malloc.top_pad=1");
        push_env("MALLOC_MMAP_THRESHOLD_", b"4096");
        push_env("MALLOC_ARENA_MAX", b"1");
    }
    for (k, v) in &w.extra_env {
        if !k.is_empty() && !k.contains('=') && !k.starts_with("SEEDSIM_") && k != "LD_PRELOAD" {
            match v.strip_prefix("@home") {
                Some(rest) => {
                    let mut val = run_root.join("home").as_os_str().as_bytes().to_vec();
                    val.extend_from_slice(rest.as_bytes());
                    push_env(k, &val);
                }
                None => push_env(k, v.as_bytes()),
            }
        }
    }
    if w.env_pad > 0 {
        push_env("SEEDSIM_PAD", &vec![b'p'; w.env_pad as usize]);
    }
    // environment entries that are not valid Unicode / not of the form NAME=value
    let raw_entries: &[&[u8]] = match w.env_bytes {
        1 => &[b"LAST_VENUE=caf\xe9"],
        2 => &[b"N\xffME=value"],
        3 => &[b"LANG=\xff\xfe.UTF-8", b"LC_ALL=\xc3"],
        4 => &[b"NO_EQUALS_SIGN_HERE"],
        5 => &[b"=starts_with_equals"],
        6 => &[b"A=\xe9", b"\x80=\x80", b"HOME=/ro\xf8t", b"USER=\xff", b"TERM=\xfe", b"BARE"],
        _ => &[],
    };
    for e in raw_entries {
        env.push(e.to_vec());
    }
    let envp: Vec<CString> = env.iter().map(|e| cstr(e)).collect();
    let cwd_c = cstr(lay.cwd.as_os_str().as_bytes());

    let fds = ChildFds {
        stdin: stdin_fd.as_ref().map(AsRawFd::as_raw_fd),
        stdout: out_fd.as_ref().map(AsRawFd::as_raw_fd),
        stderr: if w.merged { out_fd.as_ref().map(AsRawFd::as_raw_fd) } else { err_fd.as_ref().map(AsRawFd::as_raw_fd) },
        log: log_fd.as_raw_fd(),
    };

    // another process holds an exclusive advisory lock on the script for the whole run
    let _script_lock = if w.flock && lay.script.is_file() {
        let f = fs::File::open(&lay.script)?;
        unsafe {
            libc::flock(f.as_raw_fd(), libc::LOCK_EX);
        }
        Some(f)
    } else {
        None
    };
    let stack = w.stack;
    let opts = ChildOpts { rlimit: w.rlimit, sig: w.sig, umask: w.umask, fds: w.fds, uid: w.uid };
    let pid = unsafe { spawn(&exe_c, &argv, &envp, &cwd_c, &fds, stack, &opts) }?;
    WATCH.lock().unwrap().push((pid, Instant::now()));

    // parent: drop our copies of the child's ends so readers see EOF
    drop(out_fd);
    drop(err_fd);
    drop(stdin_fd);

    let mut st: libc::c_int = 0;
    loop {
        let r = unsafe { libc::waitpid(pid, &mut st, 0) };
        if r == pid {
            break;
        }
        if r < 0 && std::io::Error::last_os_error().raw_os_error() != Some(libc::EINTR) {
            return Err(std::io::Error::last_os_error());
        }
    }
    WATCH.lock().unwrap().retain(|(p, _)| *p != pid);
    drop(keep);
    let hung = {
        let mut h = HUNG.lock().unwrap();
        let was = h.contains(&pid);
        h.retain(|p| *p != pid);
        was
    };
    let status = if hung {
        Status::Hang
    } else if libc::WIFEXITED(st) {
        Status::Exit(libc::WEXITSTATUS(st))
    } else if libc::WIFSIGNALED(st) {
        Status::Signal(libc::WTERMSIG(st))
    } else {
        Status::Exit(-1)
    };

    drop(log_fd);
    let raw_log = fs::read(&log_path)?;
    let events = parse_log(&raw_log);
    let accepted = |fd: i32| -> usize { events.iter().filter(|e| e.kind == 'W' && e.ret > 0 && (e.fd == fd || (w.merged && fd == 1 && e.fd == 2))).map(|e| e.ret as usize).sum() };
    let collect = |h: SinkHandle, expect: usize| -> Option<Vec<u8>> {
        match h {
            SinkHandle::File(p) => fs::read(p).ok(),
            SinkHandle::Stream(j) => j.join().ok(),
            SinkHandle::Pty(j, count, keep_slave) => {
                let t0 = Instant::now();
                while count.load(std::sync::atomic::Ordering::SeqCst) < expect && t0.elapsed() < Duration::from_secs(5) {
                    std::thread::sleep(Duration::from_micros(200));
                }
                drop(keep_slave);
                j.join().ok()
            }
            SinkHandle::Nothing => None,
        }
    };
    let sink_stdout = collect(out_h, accepted(1));
    let sink_stderr = collect(err_h, accepted(2));

    let mut stdout = vec![];
    let mut stderr = vec![];
    for e in &events {
        if e.kind == 'W' && e.ret > 0 {
            if e.fd == 1 {
                stdout.extend_from_slice(&e.data);
            } else if e.fd == 2 {
                stderr.extend_from_slice(&e.data);
            }
        }
    }
    // seam completeness: what the real sinks hold must be what the shim saw
    let mut seam_ok = true;
    if w.merged {
        if let Some(s) = &sink_stdout {
            let mut m = vec![];
            for e in &events {
                if e.kind == 'W' && e.ret > 0 {
                    m.extend_from_slice(&e.data);
                }
            }
            if *s != m {
                seam_ok = false;
            }
        }
    } else {
        if let Some(s) = &sink_stdout {
            if *s != stdout {
                seam_ok = false;
            }
        }
        if let Some(s) = &sink_stderr {
            if *s != stderr {
                seam_ok = false;
            }
        }
    }

    let mut abs = lay.cwd.clone();
    abs.push(Path::new(OsStr::from_bytes(lay.argv1.as_bytes())));
    Ok(RunResult {
        status,
        stdout,
        stderr,
        sink_stdout,
        sink_stderr,
        events,
        argv1: lay.argv1.as_bytes().to_vec(),
        cwd: lay.cwd.clone(),
        abs_script: abs.as_os_str().as_bytes().to_vec(),
        seam_ok,
    })
}

// fork + exec.  Everything the child needs is prepared before fork; the child
// only calls async-signal-safe functions.
unsafe fn spawn(
    exe: &CString,
    argv: &[CString],
    envp: &[CString],
    cwd: &CString,
    fds: &ChildFds,
    stack: u8,
    opts: &ChildOpts,
) -> std::io::Result<i32> {
    let devnull = CString::new("/dev/null").unwrap();
    let mut argv_p: Vec<*const libc::c_char> = argv.iter().map(|c| c.as_ptr()).collect();
    argv_p.push(std::ptr::null());
    let mut envp_p: Vec<*const libc::c_char> = envp.iter().map(|c| c.as_ptr()).collect();
    envp_p.push(std::ptr::null());

    let pid = libc::fork();
    if pid < 0 {
        return Err(std::io::Error::last_os_error());
    }
    if pid == 0 {
        // child
        if libc::chdir(cwd.as_ptr()) != 0 {
            libc::_exit(126);
        }
        // ADDR_NO_RANDOMIZE
        libc::personality(0x0040000);
        let lim: Option<libc::rlim_t> = match stack {
            1 => Some(16 << 20),
            2 => Some(64 << 20),
            3 => Some(libc::RLIM_INFINITY),
            _ => None,
        };
        if let Some(l) = lim {
            let r = libc::rlimit { rlim_cur: l, rlim_max: libc::RLIM_INFINITY };
            libc::setrlimit(libc::RLIMIT_STACK, &r);
        }
        // no core files
        let r0 = libc::rlimit { rlim_cur: 0, rlim_max: 0 };
        libc::setrlimit(libc::RLIMIT_CORE, &r0);
        // move sources out of the way of 0,1,2 and LOG_FD
        let mv = |fd: Option<RawFd>, base: i32| -> Option<RawFd> {
            fd.map(|f| {
                let n = libc::fcntl(f, libc::F_DUPFD, base);
                if n < 0 {
                    libc::_exit(125);
                }
                n
            })
        };
        let s0 = mv(fds.stdin, 300);
        let s1 = mv(fds.stdout, 300);
        let s2 = mv(fds.stderr, 300);
        let lg = libc::fcntl(fds.log, libc::F_DUPFD, 300);
        let place = |src: Option<RawFd>, tgt: RawFd| match src {
            Some(s) => {
                if libc::dup2(s, tgt) < 0 {
                    libc::_exit(124);
                }
            }
            None => {
                libc::close(tgt);
            }
        };
        place(s0, 0);
        place(s1, 1);
        place(s2, 2);
        if libc::dup2(lg, LOG_FD) < 0 {
            libc::_exit(123);
        }
        // close everything else >= 3 except LOG_FD
        for fd in 3..400 {
            if fd != LOG_FD {
                libc::close(fd);
            }
        }
        // inherited process state the program did not choose
        match opts.umask {
            1 => {
                libc::umask(0);
            }
            2 => {
                libc::umask(0o077);
            }
            3 => {
                libc::umask(0o777);
            }
            _ => {}
        }
        if opts.fds > 0 {
            let top = if opts.fds == 1 { 20 } else { 100 };
            let d = libc::open(devnull.as_ptr(), libc::O_RDWR);
            if d >= 0 {
                for fd in 3..top {
                    if fd != d {
                        libc::dup2(d, fd);
                    }
                }
                if d >= top {
                    libc::close(d);
                }
            }
        }
        match opts.sig {
            1 => {
                libc::signal(libc::SIGPIPE, libc::SIG_DFL);
            }
            2 => {
                for s in [libc::SIGINT, libc::SIGTERM, libc::SIGHUP, libc::SIGPIPE, libc::SIGQUIT] {
                    libc::signal(s, libc::SIG_IGN);
                }
            }
            3 => {
                let mut set: libc::sigset_t = std::mem::zeroed();
                libc::sigfillset(&mut set);
                libc::sigprocmask(libc::SIG_BLOCK, &set, std::ptr::null_mut());
            }
            _ => {}
        }
        let lim = |res, v: libc::rlim_t| {
            let r = libc::rlimit { rlim_cur: v, rlim_max: v };
            libc::setrlimit(res, &r);
        };
        match opts.rlimit {
            1 => lim(libc::RLIMIT_AS, 192 << 20),
            2 => lim(libc::RLIMIT_AS, 1 << 30),
            3 => lim(libc::RLIMIT_CPU, 60),
            4 => lim(libc::RLIMIT_NOFILE, 260),
            5 => lim(libc::RLIMIT_FSIZE, 64 << 20),
            6 => lim(libc::RLIMIT_DATA, 128 << 20),
            7 => {
                // one usable CPU: what available_parallelism / sched_getaffinity / nproc report
                let cpu = libc::sched_getcpu().max(0) as usize;
                let mut set: libc::cpu_set_t = std::mem::zeroed();
                libc::CPU_SET(cpu, &mut set);
                libc::sched_setaffinity(0, std::mem::size_of::<libc::cpu_set_t>(), &set);
            }
            _ => {}
        }
        if opts.uid == 1 {
            libc::setgroups(0, std::ptr::null());
            libc::setgid(65534);
            libc::setuid(65534);
        }
        libc::execve(exe.as_ptr(), argv_p.as_ptr(), envp_p.as_ptr());
        libc::_exit(127);
    }
    Ok(pid)
}

pub fn make_scratch() -> PathBuf {
    let base = if Path::new("/dev/shm").is_dir() { PathBuf::from("/dev/shm") } else { PathBuf::from("/var/tmp") };
    // fixed-width names: the absolute script path is echoed in some worlds, and its
    // length must not depend on the pid or the worker index (chunk boundaries would move)
    let p = base.join(format!("seedsim-{:07}", std::process::id()));
    let _ = fs::remove_dir_all(&p);
    fs::create_dir_all(&p).expect("cannot create scratch dir");
    p
}

pub fn remove_scratch(p: &Path) {
    let _ = fs::remove_dir_all(p);
}

// silence unused warnings for IntoRawFd on some toolchains
#[allow(dead_code)]
fn _unused(fd: OwnedFd) -> RawFd {
    fd.into_raw_fd()
}
