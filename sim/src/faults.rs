// Fault plan generators.  Faults are placed inside operations that have
// in-flight state: at a write call index that exists in the fault-free run,
// at a read that crosses the file, etc.

use crate::exec::RunResult;
use crate::plan::*;
use crate::rng::Rng;

pub const WRITE_ERRNOS: &[i32] = &[ENOSPC, EPIPE, EIO, EFBIG, EAGAIN, EDQUOT];
pub const READ_ERRNOS: &[i32] = &[EIO, EISDIR, ENOMEM, EBADF, EAGAIN, 110 /* ETIMEDOUT */, 116 /* ESTALE */];
pub const OPEN_ERRNOS: &[i32] = &[ENOENT, EACCES, ELOOP, ENAMETOOLONG, ENOTDIR, EMFILE, ENFILE];
pub const CWD_ERRNOS: &[i32] = &[ENOENT, EACCES];

pub fn count_writes(r: &RunResult, fd: i32) -> u64 {
    r.events.iter().filter(|e| e.kind == 'W' && e.fd == fd).count() as u64
}

pub fn count_reads(r: &RunResult) -> u64 {
    r.events.iter().filter(|e| e.kind == 'R').count() as u64
}

pub fn script_len(r: &RunResult) -> u64 {
    r.events.iter().filter(|e| e.kind == 'R' && e.ret > 0).map(|e| e.ret as u64).sum()
}

pub fn write_fault(rng: &mut Rng, fd: i32, nwrites: u64) -> Item {
    let n = if nwrites == 0 { 0 } else { rng.below(nwrites) };
    let e = *rng.pick(WRITE_ERRNOS);
    let act = match rng.below(17) {
        0..=5 => Act::Err(e),
        6..=11 => Act::PErr(e),
        12 | 13 => Act::Part(1 + rng.below(6), e),
        14 | 15 => Act::PPart(1 + rng.below(6), e),
        // the device takes nothing and reports no error (std: WriteZero)
        _ => Act::Zero,
    };
    Item::Write { fd, n, act }
}

pub fn read_fault(rng: &mut Rng, nreads: u64) -> Item {
    let n = if nreads == 0 { 0 } else { rng.below(nreads) };
    let e = *rng.pick(READ_ERRNOS);
    let act = match rng.below(4) {
        0 | 1 => Act::Err(e),
        2 => Act::PErr(e),
        _ => Act::Part(1 + rng.below(16), e),
    };
    Item::Read { n, act }
}

pub fn open_fault(rng: &mut Rng) -> Item {
    Item::Open { n: 0, act: Act::Err(*rng.pick(OPEN_ERRNOS)) }
}

pub fn cwd_fault(rng: &mut Rng) -> Item {
    Item::Cwd { n: 0, act: Act::PErr(*rng.pick(CWD_ERRNOS)) }
}

// chunking that makes one print span many write calls / one file many reads
pub fn spread_items(rng: &mut Rng) -> Vec<Item> {
    let mut v = vec![];
    if rng.chance(1, 2) {
        v.push(Item::WChunk { fd: 1, seed: rng.next_u64() >> 1, max: 1 + rng.below(12) });
    }
    if rng.chance(1, 4) {
        v.push(Item::WChunk { fd: 2, seed: rng.next_u64() >> 1, max: 1 + rng.below(12) });
    }
    if rng.chance(1, 3) {
        v.push(Item::RChunk { seed: rng.next_u64() >> 1, max: 1 + rng.below(24) });
    }
    v
}
