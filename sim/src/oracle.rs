// Oracle helpers shared by the checks.

use crate::exec::{RunResult, Status};
use crate::plan::{Act, Item, Plan, EINTR};
use crate::rng::Rng;

fn replace_prefix(line: &[u8], old: &[u8], new: &[u8]) -> Option<Vec<u8>> {
    if line.starts_with(old) {
        let mut v = new.to_vec();
        v.extend_from_slice(&line[old.len()..]);
        Some(v)
    } else {
        None
    }
}

fn replace_all(hay: &[u8], old: &[u8], new: &[u8]) -> Vec<u8> {
    if old.is_empty() {
        return hay.to_vec();
    }
    let mut out = vec![];
    let mut i = 0;
    while i < hay.len() {
        if hay[i..].starts_with(old) {
            out.extend_from_slice(new);
            i += old.len();
        } else {
            out.push(hay[i]);
            i += 1;
        }
    }
    out
}

// stderr that world `run` must show, given the reference run: identical up to
// the echoed script path (line 1 prefix, stack-trace line prefixes, and the
// absolute path quoted in a read-failure message).
pub fn expected_stderr(reference: &RunResult, run_argv1: &[u8], run_abs: &[u8]) -> Vec<u8> {
    let lines: Vec<&[u8]> = reference.stderr.split_inclusive(|b| *b == b'\n').collect();
    let mut old1 = reference.argv1.clone();
    old1.push(b':');
    let mut new1 = run_argv1.to_vec();
    new1.push(b':');
    let mut old_t = b"  ".to_vec();
    old_t.extend_from_slice(&old1);
    let mut new_t = b"  ".to_vec();
    new_t.extend_from_slice(&new1);
    let last_st = lines.iter().rposition(|l| *l == b"Stacktrace:\n");
    let mut out = vec![];
    for (i, l) in lines.iter().enumerate() {
        let mut line: Vec<u8> = l.to_vec();
        if i == 0 {
            if let Some(v) = replace_prefix(&line, &old1, &new1) {
                line = v;
            }
            let mut q_old = b"'".to_vec();
            q_old.extend_from_slice(&reference.abs_script);
            q_old.push(b'\'');
            let mut q_new = b"'".to_vec();
            // seed renders the absolute path with to_string_lossy
            q_new.extend_from_slice(String::from_utf8_lossy(run_abs).as_bytes());
            q_new.push(b'\'');
            line = replace_all(&line, &q_old, &q_new);
        } else if let Some(st) = last_st {
            if i > st {
                if let Some(v) = replace_prefix(&line, &old_t, &new_t) {
                    line = v;
                }
            }
        }
        out.extend_from_slice(&line);
    }
    out
}

pub fn show(b: &[u8]) -> String {
    let s = String::from_utf8_lossy(b);
    let mut t: String = s.chars().take(1500).collect();
    if s.len() > t.len() {
        t.push_str("…");
    }
    t
}

pub fn is_crash(s: &Status) -> bool {
    !matches!(s, Status::Exit(0) | Status::Exit(103))
}

// names of the plan items that actually fired in this run
pub fn fired_kinds(plan: &Plan, r: &RunResult) -> Vec<String> {
    let mut out = vec![];
    for it in &plan.items {
        let fired = match it {
            Item::Write { fd, act, .. } => r.events.iter().any(|e| {
                e.kind == 'W'
                    && e.fd == *fd
                    && match act {
                        Act::Short(_) => e.act == "short",
                        Act::Eintr => e.act == "eintr",
                        Act::Err(_) => e.act == "err",
                        Act::PErr(_) => e.act == "perr",
                        Act::Part(..) | Act::PPart(..) => e.act == "part" || e.act == "part0" || e.act == "pend",
                        Act::Zero => e.act == "zero",
                        Act::Erange => false,
                    }
            }),
            Item::Read { act, .. } => r.events.iter().any(|e| {
                e.kind == 'R'
                    && match act {
                        Act::Short(_) => e.act == "short",
                        Act::Eintr => e.act == "eintr",
                        Act::Err(_) => e.act == "err",
                        Act::PErr(_) => e.act == "perr",
                        Act::Part(..) | Act::PPart(..) => e.act == "part" || e.act == "pend",
                        Act::Erange | Act::Zero => false,
                    }
            }),
            Item::Open { .. } => r.events.iter().any(|e| e.kind == 'O' && e.ret < 0 && (e.act == "err" || e.act == "eintr")),
            Item::Cwd { .. } => r.events.iter().any(|e| e.kind == 'G' && e.ret < 0 && (e.act == "err" || e.act == "erange")),
            Item::WChunk { fd, .. } => r.events.iter().any(|e| e.kind == 'W' && e.fd == *fd && e.act == "chunk"),
            Item::RChunk { .. } => r.events.iter().any(|e| e.kind == 'R' && e.act == "chunk" && e.ret > 0),
            Item::Hint { .. } => r.events.iter().any(|e| e.kind == 'S' && e.act == "hint"),
            Item::FType { .. } => r.events.iter().any(|e| e.kind == 'S' && (e.act == "ftype" || e.act == "isatty")),
            Item::NbFifo { .. } => r.events.iter().any(|e| e.kind == 'R' && (e.act == "nbeof" || e.act == "nbagain")),
            Item::Eof { .. } | Item::Flip { .. } => r.events.iter().any(|e| e.kind == 'R'),
            Item::Kill { .. } => r.events.iter().any(|e| e.kind == 'K'),
        };
        if fired {
            out.push(it.kind_name());
        }
    }
    out
}

// Random plan made of events that must be invisible in the transcript.
pub fn invisible_plan(rng: &mut Rng, ref_run: &RunResult) -> Plan {
    let mut p = Plan::new();
    let w1 = ref_run.events.iter().filter(|e| e.kind == 'W' && e.fd == 1).count() as u64;
    let w2 = ref_run.events.iter().filter(|e| e.kind == 'W' && e.fd == 2).count() as u64;
    let nr = ref_run.events.iter().filter(|e| e.kind == 'R').count() as u64;
    let k = rng.below(5);
    for _ in 0..k {
        match rng.below(10) {
            0 => p.items.push(Item::WChunk { fd: 1, seed: rng.next_u64() >> 1, max: 1 + rng.below(8) }),
            1 => p.items.push(Item::WChunk { fd: 2, seed: rng.next_u64() >> 1, max: 1 + rng.below(8) }),
            2 => p.items.push(Item::RChunk { seed: rng.next_u64() >> 1, max: 1 + rng.below(16) }),
            3 if w1 > 0 => {
                let n = rng.below(w1 + 1);
                for b in 0..(1 + rng.below(3)) {
                    p.items.push(Item::Write { fd: 1, n: n + b, act: Act::Eintr });
                }
            }
            4 if w2 > 0 => {
                let n = rng.below(w2 + 1);
                for b in 0..(1 + rng.below(3)) {
                    p.items.push(Item::Write { fd: 2, n: n + b, act: Act::Eintr });
                }
            }
            5 if nr > 0 => {
                let n = rng.below(nr + 1);
                for b in 0..(1 + rng.below(3)) {
                    p.items.push(Item::Read { n: n + b, act: Act::Eintr });
                }
            }
            6 if w1 > 0 && (w2 == 0 || rng.chance(2, 3)) => p.items.push(Item::Write { fd: 1, n: rng.below(w1), act: Act::Short(1 + rng.below(4)) }),
            6 if w2 > 0 => {
                // a short write on stderr, optionally followed by EINTR on the continuation
                let n = rng.below(w2);
                p.items.push(Item::Write { fd: 2, n, act: Act::Short(1 + rng.below(4)) });
                if rng.chance(1, 2) {
                    p.items.push(Item::Write { fd: 2, n: n + 1, act: Act::Eintr });
                }
            }
            7 => p.items.push(Item::Open { n: 0, act: Act::Eintr }),
            8 => p.items.push(Item::Cwd { n: 0, act: Act::Erange }),
            9 => {
                let sz = ref_run.events.iter().filter(|e| e.kind == 'R' && e.ret > 0).map(|e| e.ret as u64).sum::<u64>();
                let h = match rng.below(4) {
                    0 => 0,
                    1 => sz / 2,
                    2 => sz + 1 + rng.below(100),
                    _ => sz.saturating_sub(1),
                };
                p.items.push(Item::Hint { size: h });
                if rng.chance(1, 3) {
                    // the script arrives through a pipe: FIFO / character device, size 0, not seekable
                    let kind = 1 + rng.below(3) as u8;
                    p.items.push(Item::FType { kind });
                    if kind == 1 && rng.chance(1, 2) {
                        // a writer that is late or pauses: invisible through a blocking descriptor
                        p.items.push(if rng.chance(1, 2) { Item::NbFifo { mode: 1, n: 0 } } else { Item::NbFifo { mode: 2, n: rng.below(4) } });
                    }
                    if rng.chance(2, 3) {
                        p.items.push(Item::RChunk { seed: rng.next_u64() >> 1, max: 1 + rng.below(64) });
                    }
                }
            }
            _ => {}
        }
    }
    // at most one chunk item per fd
    let mut seen = std::collections::BTreeSet::new();
    p.items.retain(|it| match it {
        Item::WChunk { fd, .. } => seen.insert(format!("w{fd}")),
        Item::RChunk { .. } => seen.insert("r".to_string()),
        Item::Hint { .. } => seen.insert("h".to_string()),
        Item::FType { .. } => seen.insert("t".to_string()),
        Item::NbFifo { .. } => seen.insert("nb".to_string()),
        _ => true,
    });
    let _ = EINTR;
    p
}

// History invariant I1: every read of the script and its close precede the
// first write to fd 1 or fd 2... (fd 2 excluded: a read error is reported on fd 2
// before close is irrelevant).  Returns a description when violated.
pub fn check_read_before_output(r: &RunResult) -> Option<String> {
    let first_out = r.events.iter().find(|e| e.kind == 'W' && e.fd == 1).map(|e| e.seq);
    if let Some(fo) = first_out {
        if let Some(late) = r.events.iter().find(|e| (e.kind == 'R' || e.kind == 'O') && e.seq > fo) {
            return Some(format!("script {} event at seq {} after the first stdout write at seq {}", late.kind, late.seq, fo));
        }
    }
    None
}

// History invariant I3: the first write to fd 2 follows the last write of new
// bytes to fd 1 (exit-time retries of a failed chunk excepted by the caller).
pub fn check_diag_after_output(r: &RunResult) -> Option<String> {
    let first_err = r.events.iter().find(|e| e.kind == 'W' && e.fd == 2 && e.ret > 0).map(|e| e.seq);
    if let Some(fe) = first_err {
        if let Some(late) = r.events.iter().find(|e| e.kind == 'W' && e.fd == 1 && e.ret > 0 && e.seq > fe) {
            return Some(format!("stdout bytes accepted at seq {} after the diagnostic started at seq {}", late.seq, fe));
        }
    }
    None
}
