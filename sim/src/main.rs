fn main(){ let v: serde_json::Value = serde_json::json!({"a":1}); println!("{}", v); unsafe{ libc::getpid(); } }
