mod corpus;
mod diag;
mod engine;
mod exec;
mod faults;
mod oracle;
mod plan;
mod programs;
mod props;
mod replay;
mod rng;
mod shrink;
mod w2;
mod w3;
mod world;

use engine::{Ctx, Property};
use std::path::PathBuf;

fn all_props() -> Vec<Box<dyn Property>> {
    vec![Box::new(props::c02::C02), Box::new(props::c03::C03), Box::new(props::c12::C12), Box::new(props::c17::C17), Box::new(props::c18::C18), Box::new(props::c19::C19)]
}

fn usage() -> ! {
    eprintln!("usage: seedsim <ID> quick|thorough | replay <file> | gen-w2 <seed> [layout] | selfcheck-determinism <ID>");
    std::process::exit(2);
}

fn main() {
    let args: Vec<String> = std::env::args().collect();
    if args.len() < 2 {
        usage();
    }
    let verif_dir = PathBuf::from(std::env::var("SEEDSIM_VERIF_DIR").unwrap_or_else(|_| "/verif".into()));
    let repo = PathBuf::from(std::env::var("SEEDSIM_REPO").unwrap_or_else(|_| "/repo".into()));
    let exe = PathBuf::from(std::env::var("SEEDSIM_EXE").unwrap_or_else(|_| repo.join("target/debug/seed").to_string_lossy().to_string()));
    let shim = verif_dir.join("build/libseedsim.so");
    let seed: u64 = std::env::var("VERIF_SEED").ok().and_then(|v| v.parse().ok()).unwrap_or(20_260_930);

    if args[1] == "gen-w2" {
        let s: u64 = args.get(2).and_then(|v| v.parse().ok()).unwrap_or(1);
        let layout = args.get(3).map(|v| v == "layout").unwrap_or(false);
        let mut rng = rng::Rng::new(s);
        let p = w2::pick_with(&mut rng, &w2::GenOpts::default(), layout);
        let b = w2::build(&p.aux);
        print!("{}", String::from_utf8_lossy(&b.text));
        eprintln!("--- model stdout ---\n{}", String::from_utf8_lossy(&b.stdout));
        eprintln!("--- events: {} nodes: {} ---", b.events.len(), b.site.len());
        return;
    }

    if !exe.exists() {
        eprintln!("HARNESS-ERROR: seed binary not found at {}", exe.display());
        std::process::exit(2);
    }
    if !shim.exists() {
        eprintln!("HARNESS-ERROR: shim not found at {} (run setup)", shim.display());
        std::process::exit(2);
    }
    let scratch = exec::make_scratch();
    let cfg = exec::Config { exe, shim, scratch: scratch.clone() };
    let corpus = corpus::load(&repo.join("tests/stdout"));
    let props = all_props();

    let code = if args[1] == "w2-baseline" {
        let n: u64 = args.get(2).and_then(|v| v.parse().ok()).unwrap_or(1000);
        let ctx = Ctx::new(cfg, seed, "quick", corpus, verif_dir);
        let mut bad = 0;
        let mut ev = 0usize;
        for i in 0..n {
            let mut rng = rng::Rng::for_run(seed, "w2-baseline", i);
            let p = w2::pick(&mut rng, &w2::GenOpts::default());
            let b = w2::build(&p.aux);
            ev += b.events.len();
            let r = ctx.reference(0, &p.program);
            if r.stdout != b.stdout || r.status != exec::Status::Exit(0) || !r.stderr.is_empty() {
                bad += 1;
                if bad <= 3 {
                    let f = format!("/tmp/probe/bad{bad}.sd");
                    let _ = std::fs::write(&f, &p.program);
                    println!("MISMATCH #{i} aux={} status={} stderr={} -> {f}", p.aux, r.status.render(), String::from_utf8_lossy(&r.stderr));
                }
            }
        }
        println!("w2-baseline: {n} programs, {bad} mismatches, {} events avg", ev as f64 / n as f64);
        i32::from(bad > 0)
    } else if args[1] == "events" {
        // run one case file several times and print the event logs (debugging aid)
        let file = args.get(2).cloned().unwrap_or_else(|| usage());
        let reps: usize = args.get(3).and_then(|v| v.parse().ok()).unwrap_or(2);
        let ctx = Ctx::new(cfg, seed, "quick", corpus, verif_dir);
        exec::start_watchdog();
        let j: serde_json::Value = serde_json::from_str(&std::fs::read_to_string(&file).expect("read case")).expect("json");
        let case = engine::Case::from_json(&j).expect("case");
        for k in 0..reps {
            let r = ctx.run(0, &case.program, &case.world, &case.plan);
            println!("--- run {k}: digest={:016x} events={} status={}", r.digest(), r.events.len(), r.status.render());
            for e in &r.events {
                println!("{}", e.render());
            }
        }
        0
    } else if args[1] == "dump-programs" {
        // write sample programs of every stream to a directory (for the strace seam cross-check)
        let dir = PathBuf::from(args.get(2).cloned().unwrap_or_else(|| usage()));
        let n: u64 = args.get(3).and_then(|v| v.parse().ok()).unwrap_or(40);
        let _ = std::fs::create_dir_all(&dir);
        let ctx = Ctx::new(cfg, seed, "quick", corpus, verif_dir);
        for i in 0..n {
            let mut rng = rng::Rng::for_run(seed, "dump-programs", i);
            let p = props::c19::pick_program(&ctx, &mut rng);
            let _ = std::fs::write(dir.join(format!("p{i}.sd")), &p.program);
        }
        0
    } else if args[1] == "replay" {
        let file = args.get(2).cloned().unwrap_or_else(|| usage());
        let ctx = Ctx::new(cfg, seed, "quick", corpus, verif_dir);
        exec::start_watchdog();
        replay::replay(&ctx, &props, &file)
    } else {
        let id = args[1].clone();
        let tier = args.get(2).cloned().unwrap_or_else(|| std::env::var("VERIF_TIER").unwrap_or_else(|_| "quick".into()));
        let ctx = Ctx::new(cfg, seed, &tier, corpus, verif_dir);
        match props.iter().find(|p| p.id() == id) {
            Some(p) => engine::run_property(&ctx, p.as_ref()).exit_code,
            None => {
                eprintln!("HARNESS-ERROR: unknown property {id}");
                2
            }
        }
    };
    exec::remove_scratch(&scratch);
    std::process::exit(code);
}
