// W3 placeholder (filled in below in this file's real implementation).
use crate::programs::Picked;
use crate::rng::Rng;
pub fn pick(_rng: &mut Rng) -> Picked {
    Picked { label: "W3:stub".into(), program: b"o := {\"b\": 1, \"a\": 2}\nprint(o)\n".to_vec(), aux: serde_json::Value::Null }
}
