// W3: object histories.  A final map M is chosen first; two construction
// histories of M (different insertion orders and routes) are generated and
// observed with print / for / == / reads.  Reference model: a byte-ordered
// sorted map.

use crate::programs::Picked;
use crate::rng::Rng;
use crate::w2::ir::{render, Val};
use serde_json::{json, Value as J};
use std::collections::BTreeMap;

const KEYS: &[&str] = &[
    "a", "b", "B", "aa", "", " ", "é", "z", "10", "9", "key with space", "K", "k", "_x", "ü", "~", "A", "ab", "a b", "Z", "zz", "0", "-", "日本", "if", "x1",
];

pub struct W3Prog {
    pub text: Vec<u8>,
    pub stdout: Vec<u8>,
    pub nkeys: usize,
    pub routes: Vec<String>,
    pub observations: Vec<String>,
}

fn lit_str(s: &str) -> String {
    let mut t = String::from("\"");
    for ch in s.chars() {
        match ch {
            '"' => t.push_str("\\\""),
            '\\' => t.push_str("\\\\"),
            '$' => t.push_str("\\$"),
            '\n' => t.push_str("\\n"),
            c => t.push(c),
        }
    }
    t.push('"');
    t
}

fn lit_val(v: &Val) -> String {
    match v {
        Val::Int(n) => format!("{n}"),
        Val::Str(s) => lit_str(s),
        Val::Bool(b) => format!("{b}"),
        Val::Null => "null".into(),
        Val::List(xs) => format!("[{}]", xs.iter().map(lit_val).collect::<Vec<_>>().join(", ")),
        Val::Obj(m) => format!("{{{}}}", m.iter().map(|(k, v)| format!("{}: {}", lit_str(k), lit_val(v))).collect::<Vec<_>>().join(", ")),
        Val::Fn(_) => "null".into(),
    }
}

fn ident_like(k: &str) -> bool {
    let kw = ["break", "continue", "else", "false", "fn", "for", "if", "in", "null", "return", "true", "while", "_"];
    !k.is_empty()
        && !kw.contains(&k)
        && k.chars().next().map(|c| c.is_ascii_alphabetic() || c == '_').unwrap_or(false)
        && k.chars().all(|c| c.is_ascii_alphanumeric() || c == '_')
}

fn junk(rng: &mut Rng) -> Val {
    if rng.chance(1, 2) { Val::Int(rng.range(-50, 50)) } else { Val::Str("junk".into()) }
}

// Statements that build object `name` with exactly the pairs of `m`, in the
// insertion order `order`, along a random route.  Returns the route label.
fn construct(rng: &mut Rng, name: &str, m: &BTreeMap<String, Val>, order: &[String], out: &mut String, tmp: &mut usize) -> String {
    let route = rng.below(7);
    match route {
        0 => {
            // one literal, pairs in insertion order, with overwritten duplicates
            let mut items = vec![];
            for k in order {
                if rng.chance(1, 5) {
                    items.push(format!("{}: {}", lit_str(k), lit_val(&junk(rng))));
                }
            }
            // duplicates must come before the final entry of the same key
            let mut finals = vec![];
            for k in order {
                finals.push(format!("{}: {}", lit_str(k), lit_val(&m[k])));
            }
            items.extend(finals);
            out.push_str(&format!("{name} := {{{}}}\n", items.join(", ")));
            "literal".into()
        }
        1 | 2 => {
            out.push_str(&format!("{name} := {{}}\n"));
            for k in order {
                let v = &m[k];
                let target = if route == 2 && ident_like(k) && rng.chance(2, 3) { format!("{name}.{k}") } else { format!("{name}[{}]", lit_str(k)) };
                match (v, rng.below(4)) {
                    (Val::Int(n), 0) => {
                        let d = rng.range(-9, 9);
                        out.push_str(&format!("{target} = {}\n", n - d));
                        let t2 = if ident_like(k) && rng.chance(1, 2) { format!("{name}.{k}") } else { format!("{name}[{}]", lit_str(k)) };
                        out.push_str(&format!("{t2} += {d}\n"));
                    }
                    (Val::Str(s), 0) if s.is_ascii() && !s.is_empty() => {
                        let cut = rng.usize_below(s.len() + 1);
                        out.push_str(&format!("{target} = {}\n", lit_str(&s[..cut])));
                        out.push_str(&format!("{target} += {}\n", lit_str(&s[cut..])));
                    }
                    (_, 1) => {
                        out.push_str(&format!("{target} = {}\n", lit_val(&junk(rng))));
                        out.push_str(&format!("{name}[{}] = {}\n", lit_str(k), lit_val(v)));
                    }
                    _ => out.push_str(&format!("{target} = {}\n", lit_val(v))),
                }
            }
            if route == 1 { "incremental-index".into() } else { "incremental-prop".into() }
        }
        3 => {
            // spread of a partial object, then the rest
            let cut = rng.usize_below(order.len() + 1);
            *tmp += 1;
            let p = format!("part{tmp}");
            let first: Vec<String> = order[..cut].iter().map(|k| format!("{}: {}", lit_str(k), lit_val(&m[k]))).collect();
            out.push_str(&format!("{p} := {{{}}}\n", first.join(", ")));
            let rest: Vec<String> = order[cut..].iter().map(|k| format!("{}: {}", lit_str(k), lit_val(&m[k]))).collect();
            let mut items = vec![];
            if rng.chance(1, 2) {
                items.push(format!("{p}.."));
                items.extend(rest);
            } else {
                // overwritten by the spread that follows? no: later entries win, so put junk first
                for k in &order[..cut] {
                    if rng.chance(1, 3) {
                        items.push(format!("{}: {}", lit_str(k), lit_val(&junk(rng))));
                    }
                }
                items.extend(rest);
                items.push(format!("{p}.."));
            }
            out.push_str(&format!("{name} := {{{}}}\n", items.join(", ")));
            "spread".into()
        }
        4 => {
            // collected rest of a destructuring of a bigger object
            *tmp += 1;
            let big = format!("big{tmp}");
            let mut all: Vec<String> = order.to_vec();
            let extra: Vec<String> = (0..(1 + rng.usize_below(3))).map(|i| format!("drop{i}")).collect();
            all.extend(extra.iter().cloned());
            rng.shuffle(&mut all);
            let items: Vec<String> = all.iter().map(|k| if extra.contains(k) { format!("{}: 0", lit_str(k)) } else { format!("{}: {}", lit_str(k), lit_val(&m[k])) }).collect();
            out.push_str(&format!("{big} := {{{}}}\n", items.join(", ")));
            let pats: Vec<String> = extra.iter().map(|k| format!("{}: _", lit_str(k))).collect();
            out.push_str(&format!("{{{}, ..{name}}} := {big}\n", pats.join(", ")));
            "destructure-rest".into()
        }
        6 => {
            // {defaults.., overrides..}: two spreads with overlapping keys, the later one wins
            *tmp += 1;
            let (d, o) = (format!("dflt{tmp}"), format!("ovr{tmp}"));
            let mut in_over: Vec<bool> = order.iter().map(|_| rng.chance(1, 2)).collect();
            if rng.chance(1, 4) {
                in_over = order.iter().map(|_| true).collect();
            }
            let mut ditems = vec![];
            let mut oitems = vec![];
            for (i, k) in order.iter().enumerate() {
                if in_over[i] {
                    oitems.push(format!("{}: {}", lit_str(k), lit_val(&m[k])));
                    if rng.chance(2, 3) {
                        ditems.push(format!("{}: {}", lit_str(k), lit_val(&junk(rng))));
                    }
                } else {
                    ditems.push(format!("{}: {}", lit_str(k), lit_val(&m[k])));
                }
            }
            rng.shuffle(&mut ditems);
            out.push_str(&format!("{d} := {{{}}}\n{o} := {{{}}}\n", ditems.join(", "), oitems.join(", ")));
            if rng.chance(1, 3) && !order.is_empty() {
                // an explicit entry before a spread that contains the same key
                let k = &order[rng.usize_below(order.len())];
                out.push_str(&format!("{name} := {{{}: {}, {d}.., {o}..}}\n", lit_str(k), lit_val(&junk(rng))));
            } else {
                out.push_str(&format!("{name} := {{{d}.., {o}..}}\n"));
            }
            "double-spread".into()
        }
        _ => {
            // shorthand {a} for identifier keys, pairs for the rest
            let mut items = vec![];
            for k in order {
                if ident_like(k) && rng.chance(1, 2) {
                    *tmp += 1;
                    out.push_str(&format!("{{\n{k} := {}\n{name}_sh{tmp} := {{{k}}}\n}}\n", lit_val(&m[k])));
                }
                items.push(format!("{}: {}", lit_str(k), lit_val(&m[k])));
            }
            out.push_str(&format!("{name} := {{{}}}\n", items.join(", ")));
            "literal-shorthand".into()
        }
    }
}

pub fn build(aux: &J) -> W3Prog {
    if let (Some(h), Some(ph)) = (aux.get("model_stdout_hex").and_then(J::as_str), aux.get("model_program_hex").and_then(J::as_str)) {
        if let (Some(out), Some(text)) = (crate::plan::unhex(h), crate::plan::unhex(ph)) {
            return W3Prog { text, stdout: out, nkeys: aux.get("model_nkeys").and_then(J::as_u64).unwrap_or(2) as usize, routes: vec![], observations: vec![] };
        }
    }
    let seed = aux.get("w3_seed").and_then(J::as_u64).unwrap_or(1);
    let aliased = aux.get("aliased").and_then(J::as_bool).unwrap_or(true);
    let mut rng = Rng::new(seed);
    let nobj = 1 + rng.usize_below(3);
    let mut text = String::new();
    let mut expect = String::new();
    let mut routes = vec![];
    let mut observations = vec![];
    let mut tmp = 0usize;
    let mut maxkeys = 0;
    for oi in 0..nobj {
        // final map
        let nk = match if rng.chance(1, 30) { 99 } else { rng.below(10) } {
            // beyond one page / node / inline capacity of common containers
            99 => 65 + rng.usize_below(70),
            0 => 0,
            1..=5 => 1 + rng.usize_below(5),
            6..=8 => 4 + rng.usize_below(8),
            _ => 12 + rng.usize_below(29),
        };
        let mut m: BTreeMap<String, Val> = BTreeMap::new();
        let mut pool: Vec<String> = KEYS.iter().map(|s| s.to_string()).collect();
        for i in 0..140 {
            pool.push(format!("k{i:02}"));
        }
        rng.shuffle(&mut pool);
        for k in pool.into_iter().take(nk) {
            let v = if rng.chance(1, 60) {
                // a value beyond common buffer sizes (8 KiB, 16 KiB), with and without multi-byte text
                let unit = ["z", "żó", "ab ✓"][rng.usize_below(3)];
                Val::Str(unit.repeat(8200 / unit.len() + rng.usize_below(9000)))
            } else { match rng.below(6) {
                0 => Val::Str(["x", "hello", "żółw", "two\nlines", ""][rng.usize_below(5)].to_string()),
                1 => Val::List(vec![Val::Int(1), Val::Str("s".into())]),
                2 => {
                    let mut inner = BTreeMap::new();
                    inner.insert("q".to_string(), Val::Int(rng.range(0, 9)));
                    inner.insert("b".to_string(), Val::Null);
                    Val::Obj(inner)
                }
                _ => Val::Int(rng.range(-100, 100)),
            } };
            m.insert(k, v);
        }
        maxkeys = maxkeys.max(m.len());
        let keys: Vec<String> = m.keys().cloned().collect();
        let mut order_a = keys.clone();
        rng.shuffle(&mut order_a);
        let mut order_b = keys.clone();
        rng.shuffle(&mut order_b);
        if rng.chance(1, 4) {
            order_b = keys.iter().rev().cloned().collect();
        }
        let a = format!("oa{oi}");
        let b = format!("ob{oi}");
        routes.push(construct(&mut rng, &a, &m, &order_a, &mut text, &mut tmp));
        routes.push(construct(&mut rng, &b, &m, &order_b, &mut text, &mut tmp));
        let mv = Val::Obj(m.clone());
        // observations
        for name in [&a, &b] {
            if rng.chance(3, 4) {
                text.push_str(&format!("print({name})\n"));
                expect.push_str(&render(&mv));
                expect.push('\n');
                observations.push("print".into());
            }
            if rng.chance(3, 4) {
                text.push_str(&format!("for [k, v] in {name} {{\n    print(k)\n    print(v)\n}}\n"));
                for (k, v) in &m {
                    expect.push_str(k);
                    expect.push('\n');
                    expect.push_str(&render(v));
                    expect.push('\n');
                }
                observations.push("for".into());
            }
        }
        text.push_str(&format!("print({a} == {b})\n"));
        expect.push_str("true\n");
        observations.push("==".into());
        if rng.chance(1, 2) {
            text.push_str(&format!("print({b} != {a})\n"));
            expect.push_str("false\n");
        }
        if rng.chance(1, 2) {
            text.push_str(&format!("print([{a}] == [{b}])\n"));
            expect.push_str("true\n");
        }
        // nested: the object as a property of another, printed
        if rng.chance(1, 3) {
            text.push_str(&format!("print({{\"outer\": {a}, \"n\": 1}})\n"));
            let mut o = BTreeMap::new();
            o.insert("outer".to_string(), mv.clone());
            o.insert("n".to_string(), Val::Int(1));
            expect.push_str(&render(&Val::Obj(o)));
            expect.push('\n');
            observations.push("print-nested".into());
        }
        // the same container reached twice inside one printed value (aliasing is invisible to print)
        if aliased && rng.chance(1, 3) {
            text.push_str(&format!("print([{a}, {a}, {b}])\n"));
            expect.push_str(&render(&Val::List(vec![mv.clone(), mv.clone(), mv.clone()])));
            expect.push('\n');
            observations.push("print-aliased".into());
        }
        if aliased && rng.chance(1, 4) {
            text.push_str(&format!("sh{oi} := [{a}]\nprint({{\"x\": sh{oi}, \"y\": sh{oi}, \"z\": [{b}]}})\n"));
            let mut o = BTreeMap::new();
            o.insert("x".to_string(), Val::List(vec![mv.clone()]));
            o.insert("y".to_string(), Val::List(vec![mv.clone()]));
            o.insert("z".to_string(), Val::List(vec![mv.clone()]));
            expect.push_str(&render(&Val::Obj(o)));
            expect.push('\n');
            observations.push("print-aliased".into());
        }
        // a third object that differs from the map in exactly one way: `==` must tell
        // them apart every time it is asked, in both directions, and must keep
        // calling the two constructions of the same map equal afterwards
        if !keys.is_empty() && rng.chance(1, 2) {
            let c = format!("oc{oi}");
            let mut m2 = m.clone();
            let victim = keys[rng.usize_below(keys.len())].clone();
            let int_keys: Vec<&String> = keys.iter().filter(|k| matches!(m[*k], Val::Int(_))).collect();
            let how = rng.below(4);
            let mut restore: Option<(String, Val)> = None;
            if how == 0 && !int_keys.is_empty() {
                let k = int_keys[rng.usize_below(int_keys.len())].clone();
                if let Val::Int(n) = m[&k] {
                    m2.insert(k.clone(), Val::Int(n + 1 + rng.range(0, 5)));
                    restore = Some((k, Val::Int(n)));
                }
            } else if how == 1 {
                m2.insert(format!("extra{oi}"), Val::Int(0));
            } else if how == 2 {
                m2.remove(&victim);
            } else {
                // same size, one key replaced
                let v = m2.remove(&victim).unwrap_or(Val::Null);
                m2.insert(format!("{victim}~r"), v);
            }
            let k2: Vec<String> = m2.keys().cloned().collect();
            let mut order_c = k2.clone();
            rng.shuffle(&mut order_c);
            routes.push(construct(&mut rng, &c, &m2, &order_c, &mut text, &mut tmp));
            for (l, r, op, want) in [(&a, &c, "==", "false"), (&c, &b, "==", "false"), (&a, &c, "==", "false"), (&a, &c, "!=", "true"), (&a, &b, "==", "true")] {
                text.push_str(&format!("print({l} {op} {r})\n"));
                expect.push_str(want);
                expect.push('\n');
            }
            if rng.chance(1, 2) {
                // fresh temporaries compared repeatedly (whatever addresses the allocator hands out)
                let la = lit_val(&Val::Obj(m.clone()));
                let lc = lit_val(&Val::Obj(m2.clone()));
                text.push_str(&format!("for _ in [1, 2, 3] {{\n    print({la} == {lc})\n    print({la} == {la})\n}}\n"));
                expect.push_str("false\ntrue\nfalse\ntrue\nfalse\ntrue\n");
            }
            if m2.len() == m.len() && rng.chance(1, 2) {
                // two fresh temporaries of the same size iterated one after the other (the
                // second may be handed the first one's memory)
                let la = lit_val(&Val::Obj(m.clone()));
                let lc = lit_val(&Val::Obj(m2.clone()));
                for (lit, mm) in [(&la, &m), (&lc, &m2)] {
                    text.push_str(&format!("for [k, v] in {lit} {{\n    print(k)\n    print(v)\n}}\n"));
                    for (k, v) in mm.iter() {
                        expect.push_str(k);
                        expect.push('\n');
                        expect.push_str(&render(v));
                        expect.push('\n');
                    }
                }
                observations.push("for-temporaries".into());
            }
            if let Some((k, v)) = restore {
                text.push_str(&format!("{c}[{}] = {}\nprint({a} == {c})\nprint({c} != {b})\n", lit_str(&k), lit_val(&v)));
                expect.push_str("true\nfalse\n");
            }
            observations.push("==-variant".into());
        }
        // printing, then writing into a nested container through an alias, then printing
        // again: the rendering is a function of the value as it is now
        if aliased && rng.chance(1, 3) {
            let nest = format!("nest{oi}");
            text.push_str(&format!("{nest} := {{\"outer\": {a}, \"list\": [{a}, {b}]}}\nprint({nest})\n"));
            let mut o = BTreeMap::new();
            o.insert("outer".to_string(), mv.clone());
            o.insert("list".to_string(), Val::List(vec![mv.clone(), mv.clone()]));
            expect.push_str(&render(&Val::Obj(o)));
            expect.push('\n');
            let mut m3 = m.clone();
            // overwrite only int-valued keys: `==` between an int and a container is a type error
            let int_keys: Vec<&String> = keys.iter().filter(|k| matches!(m[*k], Val::Int(_))).collect();
            let nk = if !int_keys.is_empty() && rng.chance(1, 2) { int_keys[rng.usize_below(int_keys.len())].clone() } else { format!("added{oi}") };
            m3.insert(nk.clone(), Val::Int(777));
            text.push_str(&format!("{a}[{}] = 777\nprint({nest})\nprint({a} == {b})\nprint({nest}.list[0] == {nest}.outer)\n", lit_str(&nk)));
            let mut o = BTreeMap::new();
            o.insert("outer".to_string(), Val::Obj(m3.clone()));
            o.insert("list".to_string(), Val::List(vec![Val::Obj(m3.clone()), mv.clone()]));
            expect.push_str(&render(&Val::Obj(o)));
            expect.push('\n');
            expect.push_str(if Val::Obj(m3.clone()) == mv { "true\n" } else { "false\n" });
            expect.push_str("true\n");
            // restore, so that later observations of this object still see the map
            match m.get(&nk) {
                Some(orig) => text.push_str(&format!("{a}[{}] = {}\n", lit_str(&nk), lit_val(orig))),
                None => {
                    // no delete in the language: rebuild the object from the other construction
                    text.push_str(&format!("{a} = {{{b}..}}\n"));
                }
            }
            text.push_str(&format!("print({nest}.outer == {b})\n"));
            expect.push_str(if m.contains_key(&nk) { "true\n" } else { "false\n" });
            observations.push("print-mutate-print".into());
        }
        // pairs kept beyond their iteration: every iteration hands out its own [key, value]
        if rng.chance(1, 4) {
            text.push_str(&format!("ps{oi} := []\nfor p in {a} {{\n    ps{oi} += [p]\n}}\nprint(ps{oi})\n"));
            let pairs: Vec<Val> = m.iter().map(|(k, v)| Val::List(vec![Val::Str(k.clone()), v.clone()])).collect();
            expect.push_str(&render(&Val::List(pairs)));
            expect.push('\n');
            observations.push("for-kept-pairs".into());
        }
        // the same object far below the operands of `==`: two chains of 130 wrappers
        if rng.chance(1, 25) {
            text.push_str(&format!("da{oi} := {a}\ndb{oi} := {b}\ndi{oi} := 0\nwhile di{oi} < 130 {{\n    da{oi} = {{\"n\": da{oi}}}\n    db{oi} = [db{oi}]\n    di{oi} += 1\n}}\n"));
            text.push_str(&format!("dc{oi} := {b}\ndi{oi} = 0\nwhile di{oi} < 130 {{\n    dc{oi} = {{\"n\": dc{oi}}}\n    di{oi} += 1\n}}\nprint(da{oi} == dc{oi})\nprint(da{oi} != dc{oi})\n"));
            expect.push_str("true\nfalse\n");
            observations.push("==-deep".into());
        }
        if let Some(k) = keys.first() {
            if rng.chance(1, 2) {
                text.push_str(&format!("print({b}[{}])\n", lit_str(k)));
                expect.push_str(&render(&m[k]));
                expect.push('\n');
                observations.push("read".into());
            }
        }
    }
    W3Prog { text: text.into_bytes(), stdout: expect.into_bytes(), nkeys: maxkeys, routes, observations }
}

pub fn pick_opts(rng: &mut Rng, aliased: bool) -> Picked {
    let aux = json!({"w3_seed": rng.next_u64() >> 1, "aliased": aliased});
    let p = build(&aux);
    Picked { label: format!("W3:{}", aux["w3_seed"]), program: p.text, aux }
}

pub fn pick(rng: &mut Rng) -> Picked {
    let aux = json!({"w3_seed": rng.next_u64() >> 1});
    let p = build(&aux);
    Picked { label: format!("W3:{}", aux["w3_seed"]), program: p.text, aux }
}
