// Engine shared by all checks: run contexts, reference-transcript cache,
// the deterministic parallel driver, aggregation, evidence and replay files.

use crate::exec::{self, Config, RunResult, Status};
use crate::plan::Plan;
use crate::rng::{fnv1a, Rng};
use crate::world::World;
use serde_json::{json, Value as J};
use std::collections::{BTreeMap, BTreeSet, HashMap};
use std::path::PathBuf;
use std::sync::atomic::{AtomicU64, Ordering};
use std::sync::{Arc, Mutex};
#[allow(unused_imports)]
use std::sync::atomic::AtomicU64 as _A;
use std::time::Instant;

pub struct Ctx {
    pub cfg: Config,
    pub seed: u64,
    pub tier: String,
    pub corpus: Vec<crate::corpus::Script>,
    pub verif_dir: PathBuf,
    pub child_runs: AtomicU64,
    // runs that hung twice in a row (whatever the property makes of them)
    pub confirmed_hangs: AtomicU64,
    refs: Mutex<HashMap<u64, Arc<RunResult>>>,
}

impl Ctx {
    pub fn new(cfg: Config, seed: u64, tier: &str, corpus: Vec<crate::corpus::Script>, verif_dir: PathBuf) -> Ctx {
        Ctx {
            cfg,
            seed,
            tier: tier.to_string(),
            corpus,
            verif_dir,
            child_runs: AtomicU64::new(0),
            confirmed_hangs: AtomicU64::new(0),
            refs: Mutex::new(HashMap::new()),
        }
    }

    pub fn run(&self, worker: usize, program: &[u8], w: &World, plan: &Plan) -> RunResult {
        self.child_runs.fetch_add(1, Ordering::Relaxed);
        // scripts that declare a need for more than the default 8 MiB of stack (deep
        // recursion) run with an unlimited stack in every world, the reference world included
        let big;
        let w = if needs_big_stack(program) && w.stack != 3 {
            big = World { stack: 3, ..w.clone() };
            &big
        } else {
            w
        };
        let mut r = exec::run(&self.cfg, worker, program, w, plan);
        if r.status == Status::Hang {
            // a hang is only believed when it repeats (machine load must not raise alarms)
            self.child_runs.fetch_add(1, Ordering::Relaxed);
            r = exec::run(&self.cfg, worker, program, w, plan);
            if r.status == Status::Hang {
                self.confirmed_hangs.fetch_add(1, Ordering::Relaxed);
            }
        }
        // Under 2>&1 on one open file description the sink must hold the writes in program
        // order; if it does not (a second description with its own offset, say), that is a
        // statement about seed (C17/C19 assert it), not about the seam.
        if !r.seam_ok && !w.merged {
            eprintln!("HARNESS-ERROR: sink content differs from the shim's event log (seam incomplete)");
            eprintln!("  world={} plan={}", w.to_json(), plan.encode_items());
            std::process::exit(2);
        }
        r
    }

    // T(P, w0): fault-free run in the reference world, cached per program.
    pub fn reference(&self, worker: usize, program: &[u8]) -> Arc<RunResult> {
        let key = fnv1a(program);
        if let Some(r) = self.refs.lock().unwrap().get(&key) {
            return r.clone();
        }
        let r = Arc::new(self.run(worker, program, &World::reference(), &Plan::new()));
        let mut m = self.refs.lock().unwrap();
        // bounded: generated programs are used once; without a bound a thorough tier
        // keeps ~10^5 transcripts with event logs per worker alive
        if m.len() >= 3000 {
            m.clear();
        }
        m.insert(key, r.clone());
        r
    }
}

pub const BIG_STACK_MARKER: &[u8] = b"# seedsim: needs-big-stack\n";

pub fn needs_big_stack(program: &[u8]) -> bool {
    program.starts_with(BIG_STACK_MARKER)
}

#[derive(Clone, Debug)]
pub struct Case {
    pub label: String,       // where the program came from
    pub program: Vec<u8>,
    pub aux: J,              // generator-specific data needed to re-check (IR seed etc.)
    pub world: World,
    pub plan: Plan,
}

impl Case {
    pub fn to_json(&self) -> J {
        json!({
            "label": self.label,
            "program": String::from_utf8_lossy(&self.program),
            "program_hex": crate::plan::hex(&self.program),
            "aux": self.aux,
            "world": self.world.to_json(),
            "plan": self.plan.to_json(),
        })
    }

    pub fn from_json(j: &J) -> Option<Case> {
        Some(Case {
            label: j.get("label")?.as_str()?.to_string(),
            program: crate::plan::unhex(j.get("program_hex")?.as_str()?)?,
            aux: j.get("aux").cloned().unwrap_or(J::Null),
            world: World::from_json(j.get("world")?)?,
            plan: Plan::from_json(j.get("plan")?)?,
        })
    }

    pub fn key(&self) -> u64 {
        let mut h = fnv1a(&self.program);
        h ^= fnv1a(self.world.to_json().to_string().as_bytes()).rotate_left(13);
        h ^= fnv1a(self.plan.encode_items().as_bytes()).rotate_left(29);
        h
    }
}

#[derive(Clone, Debug)]
pub struct Violation {
    pub clause: String,     // which clause of the property statement was contradicted
    pub signature: String,  // structural signature used to match known findings
    pub detail: String,
    pub expected: String,
    pub observed: String,
}

#[derive(Clone, Debug, Default)]
pub struct Outcome {
    pub violation: Option<Violation>,
    pub skipped: Option<String>,
    pub fired: Vec<String>,        // fault kinds that actually fired
    pub probes: Vec<String>,       // rare conditions reached
    pub cells: Vec<String>,        // coverage cells
    pub nontrivial: bool,
    pub history_shape: u64,
    pub io_events: u64,
    pub known: Vec<String>,        // known findings observed (signature)
}

impl Violation {
    pub fn to_json(&self) -> J {
        json!({"clause": self.clause, "signature": self.signature, "detail": self.detail, "expected": self.expected, "observed": self.observed})
    }
    pub fn from_json(j: &J) -> Option<Violation> {
        let s = |k: &str| j.get(k).and_then(J::as_str).map(str::to_string);
        Some(Violation { clause: s("clause")?, signature: s("signature")?, detail: s("detail")?, expected: s("expected")?, observed: s("observed")? })
    }
}

impl Outcome {
    pub fn to_json(&self) -> J {
        json!({
            "violation": self.violation.as_ref().map(Violation::to_json),
            "skipped": self.skipped, "fired": self.fired, "probes": self.probes, "cells": self.cells,
            "nontrivial": self.nontrivial, "history_shape": self.history_shape, "io_events": self.io_events, "known": self.known,
        })
    }
    pub fn from_json(j: &J) -> Option<Outcome> {
        let strs = |k: &str| -> Vec<String> {
            j.get(k).and_then(J::as_array).map(|a| a.iter().filter_map(|x| x.as_str().map(str::to_string)).collect()).unwrap_or_default()
        };
        Some(Outcome {
            violation: j.get("violation").and_then(Violation::from_json),
            skipped: j.get("skipped").and_then(J::as_str).map(str::to_string),
            fired: strs("fired"),
            probes: strs("probes"),
            cells: strs("cells"),
            nontrivial: j.get("nontrivial").and_then(J::as_bool).unwrap_or(false),
            history_shape: j.get("history_shape").and_then(J::as_u64).unwrap_or(0),
            io_events: j.get("io_events").and_then(J::as_u64).unwrap_or(0),
            known: strs("known"),
        })
    }
}

pub trait Property: Sync {
    fn id(&self) -> &'static str;
    fn level(&self) -> &'static str;
    fn runs(&self, tier: &str) -> u64;
    fn gen_case(&self, ctx: &Ctx, worker: usize, rng: &mut Rng, index: u64) -> Case;
    fn check(&self, ctx: &Ctx, worker: usize, case: &Case) -> Outcome;
    fn rule(&self) -> String;
    fn assumptions(&self) -> Vec<String>;
    // probes that must be non-zero after a tier (else exit 2)
    fn required_probes(&self, _tier: &str) -> Vec<String> {
        vec![]
    }
    // property-specific measure of the space reached (goes into evidence.coverage.measure)
    fn measure(&self, _cells: &BTreeSet<String>) -> J {
        J::Null
    }
    // shrink candidates for a violating case (simpler first)
    fn shrink(&self, _ctx: &Ctx, _case: &Case) -> Vec<Case> {
        vec![]
    }
}

pub struct KnownFinding {
    pub property: String,
    pub signature: String,
    pub what: String,
    pub status: String, // "open" | "fixed"
}

pub fn load_known(verif_dir: &std::path::Path) -> Vec<KnownFinding> {
    let p = verif_dir.join("known_findings.json");
    let mut out = vec![];
    if let Ok(t) = std::fs::read_to_string(&p) {
        if let Ok(j) = serde_json::from_str::<J>(&t) {
            if let Some(a) = j.get("findings").and_then(J::as_array) {
                for f in a {
                    out.push(KnownFinding {
                        property: f.get("property").and_then(J::as_str).unwrap_or("").to_string(),
                        signature: f.get("signature").and_then(J::as_str).unwrap_or("").to_string(),
                        what: f.get("what").and_then(J::as_str).unwrap_or("").to_string(),
                        status: f.get("status").and_then(J::as_str).unwrap_or("open").to_string(),
                    });
                }
            }
        }
    }
    out
}

pub fn out_dir(ctx: &Ctx) -> PathBuf {
    std::env::var("SEEDSIM_OUT_DIR").map(PathBuf::from).unwrap_or_else(|_| ctx.verif_dir.clone())
}

// run indices below this keep their full case record in the worker output (evidence samples)
const SAMPLE_WINDOW: u64 = 400;

pub struct Summary {
    pub violations: u64,
    pub exit_code: i32,
}

fn workers() -> usize {
    std::env::var("VERIF_WORKERS").ok().and_then(|v| v.parse().ok()).unwrap_or_else(|| {
        std::thread::available_parallelism().map(|n| n.get() * 2).unwrap_or(8)
    })
}

// Run indices 0..n over the worker pool.  Results are stored by index, so what
// is explored and reported does not depend on worker count or timing.
pub fn run_property(ctx: &Ctx, prop: &dyn Property) -> Summary {
    let t0 = Instant::now();
    let n = std::env::var("VERIF_RUNS").ok().and_then(|v| v.parse().ok()).unwrap_or_else(|| prop.runs(&ctx.tier));
    let label = prop.id();
    // debugging aid: explore run indices first..first+n instead of 0..n
    let first: u64 = std::env::var("VERIF_FIRST").ok().and_then(|v| v.parse().ok()).unwrap_or(0);
    println!("seedsim: property={} tier={} VERIF_SEED={} runs={} workers={}", label, ctx.tier, ctx.seed, n, workers());
    {
        use std::io::Write;
        let _ = std::io::stdout().flush();
    }

    // Worker *processes* (fork before any thread exists): concurrent forks from
    // one multi-threaded process serialise on the address-space lock.
    let nw = workers().max(1);
    let res_dir = ctx.cfg.scratch.join("results");
    let _ = std::fs::create_dir_all(&res_dir);
    let mut pids = vec![];
    for wk in 0..nw {
        let pid = unsafe { libc::fork() };
        if pid < 0 {
            eprintln!("HARNESS-ERROR: fork failed");
            std::process::exit(2);
        }
        if pid == 0 {
            crate::exec::start_watchdog();
            let path = res_dir.join(format!("r{wk}.jsonl"));
            let dump_all = std::env::var("SEEDSIM_DUMP").is_ok();
            let mut f = std::io::BufWriter::new(std::fs::File::create(&path).expect("cannot create result file"));
            let mut i = first + wk as u64;
            let stop_flag = res_dir.join("stop-after-hangs");
            let mut hangs = 0u32;
            // full case records are only kept where the parent needs them: early indices
            // (evidence samples) and the first few violations of each signature
            let mut sig_seen: BTreeMap<String, u32> = BTreeMap::new();
            while i < first + n {
                let mut rng = Rng::for_run(ctx.seed, label, i);
                let case = prop.gen_case(ctx, wk, &mut rng, i);
                // once hangs have been established, stop burning wall-clock on them:
                // the check fails anyway and reports the ones already found
                let out = if stop_flag.exists() {
                    Outcome { skipped: Some("aborted-after-repeated-hangs".into()), ..Outcome::default() }
                } else {
                    prop.check(ctx, wk, &case)
                };
                if out.violation.as_ref().map(|v| v.detail.contains("status=hang") || v.observed.contains("status=hang")).unwrap_or(false) {
                    hangs += 1;
                }
                // also when the property itself has nothing to say about a hang (C12, C18):
                // every further hanging case would cost two watchdog periods
                if hangs >= 2 || ctx.confirmed_hangs.load(Ordering::Relaxed) >= 2 {
                    let _ = std::fs::write(&stop_flag, b"1");
                }
                let mut keep_case = i - first < SAMPLE_WINDOW || dump_all;
                if let Some(v) = &out.violation {
                    let c = sig_seen.entry(v.signature.clone()).or_insert(0);
                    *c += 1;
                    if *c <= 3 {
                        keep_case = true;
                    }
                }
                let mut line = json!({"i": i, "key": case.key(), "ph": fnv1a(&case.program), "out": out.to_json(), "runs": ctx.child_runs.swap(0, Ordering::Relaxed)});
                if keep_case {
                    line["case"] = case.to_json();
                }
                use std::io::Write;
                writeln!(f, "{line}").expect("cannot write result");
                i += nw as u64;
            }
            use std::io::Write;
            f.flush().expect("flush");
            drop(f);
            unsafe { libc::_exit(0) };
        }
        pids.push(pid);
    }
    for pid in pids {
        let mut st = 0;
        unsafe { libc::waitpid(pid, &mut st, 0) };
        if !(libc::WIFEXITED(st) && libc::WEXITSTATUS(st) == 0) {
            eprintln!("HARNESS-ERROR: worker process failed (status {st})");
            std::process::exit(2);
        }
    }
    crate::exec::start_watchdog();
    // streaming merge: worker k's file holds indices k, k+W, k+2W, ... in order
    let mut readers: Vec<std::io::Lines<std::io::BufReader<std::fs::File>>> = vec![];
    for wk in 0..nw {
        use std::io::BufRead;
        let path = res_dir.join(format!("r{wk}.jsonl"));
        match std::fs::File::open(&path) {
            Ok(f) => readers.push(std::io::BufReader::with_capacity(1 << 16, f).lines()),
            Err(e) => {
                eprintln!("HARNESS-ERROR: cannot open result file {}: {e}", path.display());
                std::process::exit(2);
            }
        }
    }
    let mut worker_runs = 0u64;

    // aggregate in index order
    let known = load_known(&ctx.verif_dir);
    let mut fired: BTreeMap<String, u64> = BTreeMap::new();
    let mut probes: BTreeMap<String, u64> = BTreeMap::new();
    let mut cells: BTreeSet<String> = BTreeSet::new();
    let mut skipped: BTreeMap<String, u64> = BTreeMap::new();
    let mut distinct: BTreeSet<u64> = BTreeSet::new();
    let mut programs: BTreeSet<u64> = BTreeSet::new();
    let mut shapes: BTreeSet<u64> = BTreeSet::new();
    let mut io_events: u64 = 0;
    let mut samples: Vec<J> = vec![];
    let mut viols: Vec<(u64, Case, Violation)> = vec![];
    let mut all_viols = 0u64;
    let mut viol_sigs: BTreeMap<String, u64> = BTreeMap::new();
    let mut known_seen: BTreeMap<String, u64> = BTreeMap::new();
    let mut digest: u64 = 0xcbf2_9ce4_8422_2325;
    for i in 0..n as usize {
        let line = match readers[i % nw].next() {
            Some(Ok(l)) => l,
            _ => {
                eprintln!("HARNESS-ERROR: missing result for run index {i}");
                std::process::exit(2);
            }
        };
        let j: J = match serde_json::from_str(&line) {
            Ok(j) => j,
            Err(e) => {
                eprintln!("HARNESS-ERROR: unreadable result for run index {i}: {e}");
                std::process::exit(2);
            }
        };
        if j.get("i").and_then(J::as_u64) != Some(first + i as u64) {
            eprintln!("HARNESS-ERROR: result files out of order at run index {i}");
            std::process::exit(2);
        }
        worker_runs += j.get("runs").and_then(J::as_u64).unwrap_or(0);
        let key = j.get("key").and_then(J::as_u64).unwrap_or(0);
        let prog_hash = j.get("ph").and_then(J::as_u64).unwrap_or(0);
        let out = match j.get("out").and_then(Outcome::from_json) {
            Some(o) => o,
            None => {
                eprintln!("HARNESS-ERROR: malformed outcome for run index {i}");
                std::process::exit(2);
            }
        };
        let case: Option<Case> = j.get("case").and_then(Case::from_json);
        digest = digest.rotate_left(5) ^ key ^ fnv1a(out.to_json().to_string().as_bytes());
        if let (Ok(f), Some(case)) = (std::env::var("SEEDSIM_DUMP"), case.as_ref()) {
            use std::io::Write;
            if let Ok(mut fh) = std::fs::OpenOptions::new().create(true).append(true).open(&f) {
                let _ = writeln!(fh, "{} {:016x} {} {}", i, key, case.plan.encode_items(), out.to_json());
                if std::env::var("SEEDSIM_DUMP_CASE").ok().and_then(|v| v.parse::<usize>().ok()) == Some(i) {
                    let _ = std::fs::write(format!("{f}.case{i}.json"), case.to_json().to_string());
                }
            }
        }
        for f in &out.fired {
            *fired.entry(f.clone()).or_insert(0) += 1;
        }
        for p in &out.probes {
            *probes.entry(p.clone()).or_insert(0) += 1;
        }
        for c in &out.cells {
            cells.insert(c.clone());
        }
        for k in &out.known {
            *known_seen.entry(k.clone()).or_insert(0) += 1;
        }
        if let Some(s) = &out.skipped {
            *skipped.entry(s.clone()).or_insert(0) += 1;
        }
        programs.insert(prog_hash);
        if out.nontrivial && out.skipped.is_none() {
            distinct.insert(key);
        }
        shapes.insert(out.history_shape);
        io_events += out.io_events;
        if let (true, Some(case)) = (samples.len() < 5 && out.nontrivial && out.skipped.is_none() && (i % 7 == 0 || samples.is_empty()), case.as_ref()) {
            let mut prog = String::from_utf8_lossy(&case.program).to_string();
            if prog.chars().count() > 600 {
                prog = prog.chars().take(600).collect();
                prog.push('…');
            }
            samples.push(json!({
                "run_index": i, "label": case.label, "program": prog,
                "world": case.world.to_json(), "plan": case.plan.to_json(),
                "fired": out.fired, "cells": out.cells,
            }));
        }
        if let Some(v) = out.violation {
            all_viols += 1;
            *viol_sigs.entry(v.signature.clone()).or_insert(0) += 1;
            if let Some(case) = case {
                viols.push((first + i as u64, case, v));
            }
        }
    }
    drop(readers);
    for wk in 0..nw {
        let _ = std::fs::remove_file(res_dir.join(format!("r{wk}.jsonl")));
    }
    ctx.child_runs.fetch_add(worker_runs, Ordering::Relaxed);

    // known findings: match by signature
    let is_known = |sig: &str| known.iter().any(|k| k.property == label && k.status == "open" && k.signature == sig);
    let mut nviol = 0u64;
    for (sig, cnt) in &viol_sigs {
        if is_known(sig) {
            *known_seen.entry(sig.clone()).or_insert(0) += cnt;
        } else {
            nviol += cnt;
        }
    }
    let _ = all_viols;
    let mut new_viols: Vec<(u64, Case, Violation)> = vec![];
    for (i, c, v) in viols {
        if is_known(&v.signature) {
            continue;
        }
        new_viols.push((i, c, v));
    }
    for k in known.iter().filter(|k| k.property == label && k.status == "open") {
        if known_seen.get(&k.signature).copied().unwrap_or(0) > 0 {
            println!("KNOWN-FINDING: property={} {} [{}; seen {} times]", label, k.what, k.signature, known_seen[&k.signature]);
        }
    }

    let total_skipped: u64 = skipped.values().sum();
    let mut exit_code = 0;

    // report at most 3 violations with distinct signatures, lowest index first
    let mut reported: BTreeSet<String> = BTreeSet::new();
    for (i, case, v) in &new_viols {
        if reported.contains(&v.signature) || reported.len() >= 3 {
            continue;
        }
        reported.insert(v.signature.clone());
        let (mcase, mv) = crate::shrink::minimise(ctx, prop, case, v);
        let path = crate::replay::write_replay(ctx, label, *i, &mcase, &mv, case);
        println!("VIOLATION property={} replay={}", label, path.display());
        println!("  clause: {}", mv.clause);
        println!("  detail: {}", mv.detail);
        exit_code = 1;
    }

    // harness-level sanity
    let wall = t0.elapsed().as_secs_f64();
    let child_runs = ctx.child_runs.load(Ordering::Relaxed);
    let mut harness_errors: Vec<String> = vec![];
    let enum_skips = skipped.get("enum-slot-beyond-run").copied().unwrap_or(0) + skipped.get("aborted-after-repeated-hangs").copied().unwrap_or(0);
    if (total_skipped - enum_skips) * 2 > n {
        harness_errors.push(format!("more than half of the cases were skipped ({total_skipped}/{n})"));
    }
    let unparsed = probes.get("unparsed").copied().unwrap_or(0);
    for p in prop.required_probes(&ctx.tier) {
        // only meaningful for full-size tiers; tiny debugging runs legitimately miss rare probes
        if unparsed * 10 > n || n < 10_000 {
            break;
        }
        if probes.get(&p).copied().unwrap_or(0) == 0 && fired.get(&p).copied().unwrap_or(0) == 0 {
            harness_errors.push(format!("coverage probe '{p}' stayed at zero"));
        }
    }

    let ev = json!({
        "property_id": label,
        "tier": if ctx.tier == "thorough" { "thorough" } else { "quick" },
        "seed": ctx.seed,
        "level": prop.level(),
        "coverage": {
            "evaluations": child_runs,
            "cases": n,
            "distinct_nontrivial": distinct.len(),
            "rule": prop.rule(),
            "samples": samples,
            "distinct_programs": programs.len(),
            "distinct_io_histories": shapes.len(),
            "simulated_io_events": io_events,
            "logical_time_note": "seed has no clock; simulated time is reported as the number of intercepted I/O events",
            "fault_kinds_fired": fired,
            "probes": probes,
            "coverage_cells_reached": cells.len(),
            "measure": prop.measure(&cells),
            "coverage_cells": cells.iter().take(400).collect::<Vec<_>>(),
            "skipped": skipped,
            "known_findings_seen": known_seen,
            "runs_per_hour": if wall > 0.0 { (child_runs as f64 / wall * 3600.0) as u64 } else { 0 },
            "workers": nw as u64,
            "exhaustive": false,
            "components": {
                "real": ["seed binary built from /repo working tree (dev profile)", "Rust std (buffering, EINTR retry, exit-time flush)", "glibc (non-interposed part)", "Linux kernel for non-faulted calls (tmpfs files, pipes, sockets)"],
                "simulated": ["results of faulted write/read/open/getcwd calls", "script delivery (chunking, truncation, stored-byte corruption, size hint)", "getrandom bytes (hash keys)", "address-space layout policy (ASLR off + deterministic padding)", "sinks, stdin, cwd, argv, environment"],
                "model": ["W2 call-chain walker + layout printer", "W3 sorted-map object model"],
            },
            "harness_errors": harness_errors,
            "result_digest": format!("{digest:016x}"),
        },
        "assumptions": prop.assumptions(),
        "wall_s": wall,
        "violations": nviol,
    });
    let evdir = out_dir(ctx).join("evidence");
    let _ = std::fs::create_dir_all(&evdir);
    let evpath = evdir.join(format!("{label}.json"));
    std::fs::write(&evpath, serde_json::to_string_pretty(&ev).unwrap()).expect("cannot write evidence");

    println!("seedsim: property={} result_digest={:016x}", label, digest);
    println!(
        "seedsim: property={} cases={} child_runs={} distinct_nontrivial={} skipped={} violations={} wall={:.1}s",
        label,
        n,
        child_runs,
        distinct.len(),
        total_skipped,
        nviol,
        wall
    );
    if exit_code == 0 && !harness_errors.is_empty() {
        // A reach probe at zero says that this run did not exercise something it usually
        // does.  Whether that is a defect of the harness depends on the tree: a change that
        // stops calling getcwd() makes "getcwd fault fired" unreachable without making the
        // check wrong.  So it is fatal only where the tree is known to be the pinned one
        // (selfcheck sets SEEDSIM_STRICT_PROBES); otherwise it is reported and recorded.
        let strict = std::env::var("SEEDSIM_STRICT_PROBES").map(|v| v == "1").unwrap_or(false);
        for h in &harness_errors {
            let fatal = strict || !h.starts_with("coverage probe");
            eprintln!("{}: {h}", if fatal { "HARNESS-ERROR" } else { "COVERAGE-NOTE" });
            if fatal {
                exit_code = 2;
            }
        }
    }
    Summary { violations: nviol, exit_code }
}

pub fn status_ok(s: &Status) -> bool {
    matches!(s, Status::Exit(0) | Status::Exit(103))
}
