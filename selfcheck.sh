#!/bin/bash
# Self-checks of the machinery (see DESIGN.md §2.8):
#   1. determinism: same VERIF_SEED => identical result digest, twice, at 1, 4 and 32 workers
#   2. seam completeness: strace's view of the child's I/O == the shim's event log
#   3. sensitivity (thorough only): mutants/run.sh and seeded/run_checks.sh
# exit 0 = all good, 2 = machinery problem
set -u
V="$(cd "$(dirname "$0")" && pwd)"
MODE="${1:-quick}"
SIM="$V/sim/target/release/seedsim"
OUT=$(mktemp -d /var/tmp/seedsim-selfcheck.XXXXXX)
trap 'rm -rf "$OUT"' EXIT
export SEEDSIM_OUT_DIR="$OUT"
export SEEDSIM_STRICT_PROBES=1
fail=0
N=300; [ "$MODE" = "thorough" ] && N=5000

echo "== determinism ($N cases per property, 2 runs x workers 1/4/32) =="
for id in C02 C03 C12 C17 C18 C19; do
    ref=""
    for w in 1 4 32; do
        for rep in 1 2; do
            d=$(VERIF_WORKERS=$w VERIF_RUNS=$N "$SIM" $id quick 2>/dev/null | grep -o 'result_digest=[0-9a-f]*')
            if [ -z "$ref" ]; then ref="$d"; fi
            if [ "$d" != "$ref" ] || [ -z "$d" ]; then echo "NONDETERMINISM: $id workers=$w rep=$rep digest=$d expected=$ref"; fail=1; fi
        done
    done
    echo "$id $ref"
done

echo "== seam completeness (strace vs shim log) =="
if command -v strace >/dev/null; then
    "$SIM" dump-programs "$OUT/progs" 40 >/dev/null 2>&1
    python3 - "$OUT" "$V" "${SEEDSIM_REPO:-/repo}" <<'PY' || fail=1
import os, re, subprocess, sys
out, v, repo = sys.argv[1:4]
exe = os.path.join(repo, "target/debug/seed")
shim = os.path.join(v, "build/libseedsim.so")
bad = 0; checked = 0
for f in sorted(os.listdir(os.path.join(out, "progs"))):
    p = os.path.join(out, "progs", f)
    st = os.stat(p)
    log = os.path.join(out, "shim.log"); tr = os.path.join(out, "trace.txt")
    env = {"LD_PRELOAD": shim, "SEEDSIM_PLAN": f"log=9;ino={st.st_dev}:{st.st_ino};rand=000102030405060708090a0b0c0d0e0f"}
    with open(log, "wb") as lf, open(os.devnull, "wb") as dn:
        os.set_inheritable(lf.fileno(), True)
        subprocess.run(["strace", "-f", "-o", tr, "-e", "trace=write,writev,pwrite64,read,readv,pread64,openat,open,getcwd,getrandom,close", "-s", "600",
                        exe, p], env=env, stdout=dn, stderr=dn, pass_fds=[], preexec_fn=lambda: os.dup2(lf.fileno(), 9), close_fds=False)
    ev = [l.split(" ") for l in open(log).read().splitlines() if l]
    shim_w = [(int(e[2]), int(e[4])) for e in ev if e[1] == "W"]
    shim_r = [int(e[4]) for e in ev if e[1] == "R"]
    t = open(tr).read().splitlines()
    # everything after the getcwd call belongs to main()
    start = next((i for i, l in enumerate(t) if "getcwd(" in l), 0)
    t = t[start:]
    real_w = []
    for l in t:
        m = re.search(r"write\((\d+), .*\)\s+= (-?\d+)", l)
        if m and int(m.group(1)) in (1, 2): real_w.append((int(m.group(1)), int(m.group(2))))
    script_fd = None; real_r = []
    for l in t:
        m = re.search(r'openat\(.*"([^"]*)".*\)\s+= (\d+)', l)
        if m and m.group(1).endswith(f): script_fd = m.group(2)
        m = re.search(r"read\((\d+), .*\)\s+= (-?\d+)", l)
        if m and script_fd and m.group(1) == script_fd: real_r.append(int(m.group(2)))
    rnd = [l for l in t if "getrandom(" in l]
    checked += 1
    if real_w != shim_w or real_r != shim_r or rnd:
        bad += 1
        print(f"SEAM MISMATCH {f}: writes strace={real_w[:6]} shim={shim_w[:6]} reads strace={real_r} shim={shim_r} getrandom_syscalls={len(rnd)}")
print(f"seam: {checked} programs compared, {bad} mismatches")
sys.exit(1 if bad else 0)
PY
else
    echo "strace not available: skipped"
fi

if [ "$MODE" = "thorough" ]; then
    echo "== sensitivity: own mutants =="
    "$V/mutants/run.sh" 8000
    echo "== sensitivity: seeded changes =="
    "$V/seeded/run_checks.sh"
fi
[ $fail -eq 0 ] && echo "selfcheck ok" || { echo "HARNESS-ERROR: selfcheck failed"; exit 2; }
