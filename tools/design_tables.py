#!/usr/bin/env python3
"""Render the sensitivity tables of DESIGN.md §8.5/§8.6 from the runner outputs."""
import json, os, sys
V = "/verif"
def mutants():
    idx = {m["name"]: m for m in json.load(open(f"{V}/mutants/index.json"))}
    rows = []
    last = {}
    for l in open(f"{V}/mutants/results.jsonl"):
        r = json.loads(l); last[r["name"]] = r
    for r in last.values():
        m = idx.get(r["name"], {})
        exp = " ".join(m.get("expect", [])) or "none"
        det = r.get("detected_by", "") or "–"
        ok = "yes"
        if m.get("kind") == "break":
            ok = "yes" if all(e in det.split() for e in m.get("expect", [])) else "**NO**"
        else:
            ok = "yes (silent)" if det == "–" else "**FALSE ALARM**"
        rows.append(f"| `{r['name']}` | {m.get('kind','?')} | {r.get('tests_pass_fail','?')} | {exp} | {det} | {ok} |")
    print("| mutant | kind | suite pass/fail | must be caught by | caught by | as required |")
    print("|--------|------|-----------------|-------------------|-----------|-------------|")
    print("\n".join(rows))
def seeded():
    rows = []
    res = {}
    for l in open(f"{V}/seeded/results.jsonl"):
        r = json.loads(l); res[r["name"]] = r
    for name in sorted(res):
        mp = f"{V}/seeded/{name}/meta.json"
        meta = json.load(open(mp)) if os.path.exists(mp) else {}
        r = res[name]
        rows.append(f"| `{name}` | {meta.get('breaks_property','?')} | {meta.get('what','')} | {meta.get('needs_to_manifest','')} | {r.get('detected_by') or '**none**'} |")
    print("| change | written against | what | needs, to manifest | caught by |")
    print("|--------|-----------------|------|--------------------|-----------|")
    print("\n".join(rows))
def capture(fn):
    import io, contextlib
    b = io.StringIO()
    with contextlib.redirect_stdout(b):
        fn()
    return b.getvalue()
if sys.argv[1] == "mutants": mutants()
elif sys.argv[1] == "seeded": seeded()
elif sys.argv[1] == "update":
    # rewrite the two tables of DESIGN.md between their markers
    d = open(f"{V}/DESIGN.md").read()
    for name, fn in (("MUTANTS", mutants), ("SEEDED", seeded)):
        b, e = f"<!-- TABLE_{name}_BEGIN -->", f"<!-- TABLE_{name}_END -->"
        i, j = d.index(b) + len(b), d.index(e)
        d = d[:i] + "\n" + capture(fn) + d[j:]
    open(f"{V}/DESIGN.md", "w").write(d)
