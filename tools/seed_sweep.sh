#!/bin/bash
# Alarm-freeness across seeds: every quick check at N other VERIF_SEED values on the
# unchanged tree must exit 0.   seed_sweep.sh [first] [count]
V="$(cd "$(dirname "$0")/.." && pwd)"
first="${1:-100}"; count="${2:-20}"
export SEEDSIM_OUT_DIR="$(mktemp -d /var/tmp/seedsim-sweep.XXXXXX)"
"$V/check" setup >/dev/null || exit 2
bad=0
for s in $(seq "$first" $((first + count - 1))); do
    for p in C02 C03 C12 C17 C18 C19; do
        VERIF_SEED=$s "$V/check" $p quick > "$SEEDSIM_OUT_DIR/log" 2>&1
        rc=$?
        if [ $rc -ne 0 ]; then bad=$((bad+1)); echo "seed=$s $p rc=$rc"; grep -E "VIOLATION|HARNESS|panicked|detail" "$SEEDSIM_OUT_DIR/log" | head -5; fi
    done
    echo "seed $s done"
done
rm -rf "$SEEDSIM_OUT_DIR"
echo "sweep finished: $bad non-zero exits"
[ $bad -eq 0 ]
