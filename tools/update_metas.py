#!/usr/bin/env python3
"""Copy the outcome of seeded/run_checks.sh (results.jsonl) into each seeded/<id>/meta.json."""
import json, os
V = "/verif"
PURE = "not detected: the violation is a pure function of the script text (no fault, schedule, environment or hidden randomness involved), outside what deterministic simulation decides here (DESIGN.md §6)"
NOTES = {
    "C17e-1": "not detected: the partial print left behind by a failing later chunk is indistinguishable, at the sink, from a torn write, which the oracle must tolerate; the other trigger (a non-UTF-8 string item) is a pure function of the script text",
    "C18e-1": "not detected: errors raised inside an interpolation slot already carry slot-relative positions on the unchanged tree (known finding K1), so positions inside slots are not asserted",
}
res = {}
for l in open(f"{V}/seeded/results.jsonl"):
    r = json.loads(l); res[r["name"]] = r
for name, r in sorted(res.items()):
    mp = f"{V}/seeded/{name}/meta.json"
    if not os.path.exists(mp):
        continue
    m = json.load(open(mp))
    det = [d for d in r.get("detected_by", "").split() if ":" not in d and "(" not in d]
    m["detected_by"] = det
    m["signatures"] = r.get("signatures", "")
    if det:
        m.pop("note", None)
    else:
        m["note"] = NOTES.get(name, PURE)
    json.dump(m, open(mp, "w"), indent=1, ensure_ascii=False)
print(f"updated {len(res)} metas")
