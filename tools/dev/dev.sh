#!/bin/bash
# dev runner: separate shim/build/evidence so that background jobs using /verif's binaries are not disturbed
export SEEDSIM_VERIF_DIR=/var/tmp/verif-dev SEEDSIM_OUT_DIR=/var/tmp/newbin-out
exec /var/tmp/sim-target/release/seedsim "$@"
