#!/bin/bash
cd /verif
export SEEDSIM_SCRATCH=/var/tmp/seedsim-mut
echo "=== mutants $(date)"; timeout 14000 mutants/run.sh 8000
echo "=== seeded pass 1 (first 20000 cases of each quick tier) $(date)"; timeout 30000 seeded/run_checks.sh "" 20000
echo "=== thorough $(date)"
mkdir -p evidence/thorough
for id in C12 C02 C03 C19 C18 C17; do
  /usr/bin/time -f "$id thorough: %es maxrss=%MKB" ./check $id thorough > /var/tmp/thor_$id.log 2>&1
  echo "$id exit=$? $(grep -E 'cases=' /var/tmp/thor_$id.log | tail -1) $(tail -1 /var/tmp/thor_$id.log)"
  cp evidence/$id.json evidence/thorough/$id.json
done
echo "=== seeded pass 2 (full quick tier for what pass 1 missed) $(date)"
for n in $(python3 -c "
import json
last={}
for l in open('/verif/seeded/results.jsonl'):
    r=json.loads(l); last[r['name']]=r
print(' '.join(k for k,r in last.items() if not [d for d in r['detected_by'].split() if ':' not in d and '(' not in d]))"); do
  unset VERIF_RUNS; timeout 3000 seeded/run_checks.sh "$n"
done
echo "=== done $(date)"
