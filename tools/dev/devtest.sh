#!/bin/bash
# devtest.sh <seeded-name> <check ids...> : apply a seeded change to the scratch checkout, build, run the dev binary
name=$1; shift
CO=/var/tmp/seedsim-ver
git -C $CO checkout -q -- . && git -C $CO clean -fdq -e target
git -C $CO apply /verif/seeded/$name/patch.diff || { echo "patch failed"; exit 1; }
(cd $CO && cargo build --offline 2>&1 | tail -1)
for id in "$@"; do
  SEEDSIM_REPO=$CO VERIF_WORKERS=${VERIF_WORKERS:-12} /var/tmp/dev.sh $id quick 2>&1 | grep -E "VIOLATION|detail|violations=|HARNESS" | cut -c1-330 | head -5
done
git -C $CO checkout -q -- .
