#!/bin/bash
for s in "$@"; do for p in C02 C03 C12 C17 C18 C19; do VERIF_SEED=$s VERIF_WORKERS=12 /var/tmp/dev.sh $p quick > /var/tmp/devsweep.out 2>&1; rc=$?; echo "seed=$s $p rc=$rc $(grep -E 'VIOLATION|HARNESS' /var/tmp/devsweep.out | head -2 | tr '\n' ' ')"; done; done
