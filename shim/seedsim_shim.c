/*
 * seedsim_shim.c -- LD_PRELOAD interposition layer for the `seed` binary.
 *
 * The simulator (../sim) starts the real binary with this library preloaded
 * and hands it a *fault plan* (env SEEDSIM_PLAN).  The shim owns every libc
 * entry point through which seed touches the outside world after `main`
 * starts (write, read, open*, close, statx, getcwd, getrandom), executes the
 * plan call by call, and appends one record per intercepted call to an
 * *event log* on a private fd using raw syscalls only (so logging never
 * re-enters the shim, never draws randomness and never reads a clock).
 *
 * Plan grammar (items separated by ';'):
 *   log=<fd>                 event log fd (required for logging)
 *   ino=<dev>:<ino>          identity of the script file
 *   rand=<hex>               bytes returned by getrandom (cycled)
 *   heap=<n>                 constructor leaks malloc(n) (shifts the heap)
 *   wchunk=<fd>:<seed>:<max> every write on fd accepts <= 1+prng%max bytes
 *   rchunk=<seed>:<max>      every script read delivers <= 1+prng%max bytes
 *   hint=<n>                 size reported by statx/fstat for the script
 *   ftype=<fifo|chr|tty>     (tty: a character device for which isatty() answers yes)
 *   ftype=<fifo|chr>         file type reported by stat/statx/fstat for the script (size 0),
 *                            lseek on it fails with ESPIPE, and the stream position is shared by
 *                            all opens: the script arrives through a pipe
 *   nb=late | nb=slow:<n>    only with ftype=fifo and only if the program made the script descriptor
 *                            non-blocking (O_NONBLOCK at open or F_SETFL): 'late' = no writer yet, every
 *                            read returns 0; 'slow:<n>' = the writer pauses, the n-th read fails with
 *                            EAGAIN once.  A blocking descriptor just waits, i.e. sees nothing of this.
 *   eof=<k>                  script content is cut after k bytes
 *   flip=<off>:<hex>         stored byte at <off> is replaced by <hex> bytes
 *   w=<fd>:<n>:<act>         rule for the n-th write call on fd (0-based)
 *   r=<n>:<act>              rule for the n-th read call on the script
 *   o=<n>:<act>              rule for the n-th open of the script
 *   c=<n>:<act>              rule for the n-th getcwd call
 *   kill=<seq>               exit_group(137) when event <seq> is reached
 *   clock=<sec>[:<step_ms>]  clock_gettime/gettimeofday/time return <sec> + step_ms (default 1) per call
 *   pid=<n>                  getpid returns <n>
 * Actions:
 *   short:<k>        transfer at most k bytes (k>=1)
 *   eintr            fail this call with EINTR
 *   err:<errno>      fail this call with errno (one shot)
 *   perr:<errno>     fail this and every later call of the class/fd
 *   part:<j>:<errno> transfer j bytes now, fail the *next* call (one shot)
 *   ppart:<j>:<errno> transfer j bytes now, fail every later call
 *   erange           (getcwd) fail with ERANGE
 *   zero             (write) return 0: nothing transferred, no error
 *
 * Log record:  <seq> <kind> <fd> <req> <ret> <errno> <act> <hex-or-dash>\n
 *   kind: W write, R script read, r other read, O script open, o other open,
 *         C close of script fd, S stat of script, G getcwd, X getrandom,
 *         K kill, E getenv (data = name), T clock read, P getpid,
 *         o open of another file (data = path)
 */
#define _GNU_SOURCE
#include <dlfcn.h>
#include <errno.h>
#include <fcntl.h>
#include <stdarg.h>
#include <stdint.h>
#include <stdlib.h>
#include <string.h>
#include <sys/stat.h>
#include <sys/sysmacros.h>
#include <sys/syscall.h>
#include <sys/types.h>
#include <sys/uio.h>
#include <unistd.h>

#ifndef AT_EMPTY_PATH
#define AT_EMPTY_PATH 0x1000
#endif

#define MAX_RULES 64
#define MAX_FDS 1024

enum act_kind { A_NONE = 0, A_SHORT, A_EINTR, A_ERR, A_PERR, A_PART, A_PPART, A_ERANGE, A_ZERO };

struct rule {
    int fd;        /* for writes */
    long n;        /* call index */
    int kind;
    long arg;      /* k or j */
    int err;
    int used;
};

static int g_init = 0;
static int g_main_started = 0; /* set at the first getcwd: seed's first action in main */
static int g_logfd = -1;
static unsigned long g_seq = 0;
static long g_kill = -1;

static unsigned long long g_dev = 0, g_ino = 0;
static int g_have_ino = 0;

static unsigned char g_rand[64];
static int g_rand_len = 0;
static unsigned long g_rand_pos = 0;

static struct rule g_w[MAX_RULES]; static int g_nw = 0;
static struct rule g_r[MAX_RULES]; static int g_nr = 0;
static struct rule g_o[MAX_RULES]; static int g_no = 0;
static struct rule g_c[MAX_RULES]; static int g_nc = 0;

/* per-fd write state (fd 0..2 only matter, but keep it general) */
static long g_wcount[MAX_FDS];
static int g_wpersist[MAX_FDS];   /* errno of persistent failure, 0 = none */
static int g_wpending[MAX_FDS];   /* errno to fail the next call with */
static int g_wpending_persist[MAX_FDS];
static unsigned long long g_wchunk_state[MAX_FDS];
static long g_wchunk_max[MAX_FDS];

static long g_rcount = 0, g_ocount = 0, g_ccount = 0;
static int g_rpersist = 0, g_rpending = 0, g_rpending_persist = 0;
static unsigned long long g_rchunk_state = 0; static long g_rchunk_max = 0;

static long g_hint = -1, g_eof = -1;
static int g_ftype = 0; /* 0 regular, 1 fifo, 2 character device, 3 terminal */
static int g_nb_mode = 0; /* 0 none, 1 late writer, 2 slow writer */
static long g_nb_n = 0;
static int g_nb_done = 0;
static unsigned char g_nonblock[MAX_FDS];
static long g_flip_off = -1; static unsigned char g_flip_bytes[16]; static int g_flip_len = 0;
static int g_virtual = 0; /* serve script reads from a private buffer */

static unsigned char g_is_script[MAX_FDS];
/* descriptors that refer to the same open file as fd 1 / fd 2 (dup, dup2, dup3, F_DUPFD*,
   /dev/stdout, /proc/self/fd/1 ...): writes through them are stdout / stderr writes */
static unsigned char g_alias[MAX_FDS];
static int alias_of(int fd) { if (fd == 1 || fd == 2) return fd; if (fd >= 0 && fd < MAX_FDS) return g_alias[fd]; return 0; }
static unsigned char *g_vbuf = NULL; static long g_vlen = 0;
static long g_vpos[MAX_FDS];
static long g_stream_pos = 0;

static long g_clock = -1; static long g_clock_calls = 0; static long g_clock_step_ms = 1;
static long g_pid = -1;
static long g_heap = 0;
static void *g_heap_leak = NULL;

/* ---------------------------------------------------------------- utils */

static unsigned long long splitmix(unsigned long long *s) {
    unsigned long long z = (*s += 0x9E3779B97F4A7C15ULL);
    z = (z ^ (z >> 30)) * 0xBF58476D1CE4E5B9ULL;
    z = (z ^ (z >> 27)) * 0x94D049BB133111EBULL;
    return z ^ (z >> 31);
}

static int hexval(int c) {
    if (c >= '0' && c <= '9') return c - '0';
    if (c >= 'a' && c <= 'f') return c - 'a' + 10;
    if (c >= 'A' && c <= 'F') return c - 'A' + 10;
    return -1;
}

static long parse_long(const char **pp) {
    const char *p = *pp; long v = 0; int neg = 0;
    if (*p == '-') { neg = 1; p++; }
    while (*p >= '0' && *p <= '9') { v = v * 10 + (*p - '0'); p++; }
    *pp = p;
    return neg ? -v : v;
}

static unsigned long long parse_ull(const char **pp) {
    const char *p = *pp; unsigned long long v = 0;
    while (*p >= '0' && *p <= '9') { v = v * 10 + (unsigned long long)(*p - '0'); p++; }
    *pp = p;
    return v;
}

static int parse_hex(const char **pp, unsigned char *out, int max) {
    const char *p = *pp; int n = 0;
    while (hexval(p[0]) >= 0 && hexval(p[1]) >= 0 && n < max) {
        out[n++] = (unsigned char)(hexval(p[0]) * 16 + hexval(p[1]));
        p += 2;
    }
    *pp = p;
    return n;
}

static int starts(const char *p, const char *lit) {
    size_t n = strlen(lit);
    return strncmp(p, lit, n) == 0;
}

static void parse_action(const char **pp, struct rule *r) {
    const char *p = *pp;
    if (starts(p, "short:")) { p += 6; r->kind = A_SHORT; r->arg = parse_long(&p); }
    else if (starts(p, "eintr")) { p += 5; r->kind = A_EINTR; }
    else if (starts(p, "erange")) { p += 6; r->kind = A_ERANGE; }
    else if (starts(p, "zero")) { p += 4; r->kind = A_ZERO; }
    else if (starts(p, "err:")) { p += 4; r->kind = A_ERR; r->err = (int)parse_long(&p); }
    else if (starts(p, "perr:")) { p += 5; r->kind = A_PERR; r->err = (int)parse_long(&p); }
    else if (starts(p, "part:")) { p += 5; r->kind = A_PART; r->arg = parse_long(&p); if (*p == ':') p++; r->err = (int)parse_long(&p); }
    else if (starts(p, "ppart:")) { p += 6; r->kind = A_PPART; r->arg = parse_long(&p); if (*p == ':') p++; r->err = (int)parse_long(&p); }
    *pp = p;
}

extern char **environ;
static char *env_lookup(const char *name) {
    if (!name || !environ) return NULL;
    size_t n = strlen(name);
    for (char **e = environ; *e; e++) {
        if (strncmp(*e, name, n) == 0 && (*e)[n] == '=') return *e + n + 1;
    }
    return NULL;
}

static void plan_init(void) {
    if (g_init) return;
    g_init = 1;
    const char *p = env_lookup("SEEDSIM_PLAN");
    if (!p) return;
    while (*p) {
        if (starts(p, "log=")) { p += 4; g_logfd = (int)parse_long(&p); }
        else if (starts(p, "ino=")) { p += 4; g_dev = parse_ull(&p); if (*p == ':') p++; g_ino = parse_ull(&p); g_have_ino = 1; }
        else if (starts(p, "rand=")) { p += 5; g_rand_len = parse_hex(&p, g_rand, (int)sizeof g_rand); }
        else if (starts(p, "heap=")) { p += 5; g_heap = parse_long(&p); }
        else if (starts(p, "wchunk=")) {
            p += 7; long fd = parse_long(&p); if (*p == ':') p++;
            unsigned long long s = parse_ull(&p); if (*p == ':') p++;
            long mx = parse_long(&p);
            if (fd >= 0 && fd < MAX_FDS && mx >= 1) { g_wchunk_state[fd] = s; g_wchunk_max[fd] = mx; }
        }
        else if (starts(p, "rchunk=")) {
            p += 7; g_rchunk_state = parse_ull(&p); if (*p == ':') p++;
            g_rchunk_max = parse_long(&p); if (g_rchunk_max >= 1) g_virtual = 1;
        }
        else if (starts(p, "hint=")) { p += 5; g_hint = parse_long(&p); }
        else if (starts(p, "nb=late")) { p += 7; g_nb_mode = 1; }
        else if (starts(p, "nb=slow:")) { p += 8; g_nb_mode = 2; g_nb_n = parse_long(&p); }
        else if (starts(p, "ftype=fifo")) { p += 10; g_ftype = 1; }
        else if (starts(p, "ftype=chr")) { p += 9; g_ftype = 2; }
        else if (starts(p, "ftype=tty")) { p += 9; g_ftype = 3; }
        else if (starts(p, "eof=")) { p += 4; g_eof = parse_long(&p); g_virtual = 1; }
        else if (starts(p, "flip=")) {
            p += 5; g_flip_off = parse_long(&p); if (*p == ':') p++;
            g_flip_len = parse_hex(&p, g_flip_bytes, (int)sizeof g_flip_bytes); g_virtual = 1;
        }
        else if (starts(p, "kill=")) { p += 5; g_kill = parse_long(&p); }
        else if (starts(p, "clock=")) { p += 6; g_clock = parse_long(&p); if (*p == ':') { p++; g_clock_step_ms = parse_long(&p); if (g_clock_step_ms < 0) g_clock_step_ms = 1; } }
        else if (starts(p, "pid=")) { p += 4; g_pid = parse_long(&p); }
        else if (starts(p, "w=") && g_nw < MAX_RULES) {
            p += 2; struct rule *r = &g_w[g_nw++]; memset(r, 0, sizeof *r);
            r->fd = (int)parse_long(&p); if (*p == ':') p++;
            r->n = parse_long(&p); if (*p == ':') p++;
            parse_action(&p, r);
        }
        else if (starts(p, "r=") && g_nr < MAX_RULES) {
            p += 2; struct rule *r = &g_r[g_nr++]; memset(r, 0, sizeof *r);
            r->n = parse_long(&p); if (*p == ':') p++;
            parse_action(&p, r); g_virtual = 1;
        }
        else if (starts(p, "o=") && g_no < MAX_RULES) {
            p += 2; struct rule *r = &g_o[g_no++]; memset(r, 0, sizeof *r);
            r->n = parse_long(&p); if (*p == ':') p++;
            parse_action(&p, r);
        }
        else if (starts(p, "c=") && g_nc < MAX_RULES) {
            p += 2; struct rule *r = &g_c[g_nc++]; memset(r, 0, sizeof *r);
            r->n = parse_long(&p); if (*p == ':') p++;
            parse_action(&p, r);
        }
        while (*p && *p != ';') p++;
        if (*p == ';') p++;
    }
}

__attribute__((constructor)) static void shim_ctor(void) {
    plan_init();
    if (g_heap > 0) {
        g_heap_leak = malloc((size_t)g_heap);
        if (g_heap_leak) memset(g_heap_leak, 0x5a, (size_t)g_heap);
    }
}

/* ------------------------------------------------------------- logging */

static char *put_ulong(char *p, unsigned long v) {
    char tmp[24]; int n = 0;
    if (v == 0) tmp[n++] = '0';
    while (v) { tmp[n++] = (char)('0' + v % 10); v /= 10; }
    while (n) *p++ = tmp[--n];
    return p;
}

static char *put_long(char *p, long v) {
    if (v < 0) { *p++ = '-'; return put_ulong(p, (unsigned long)(-v)); }
    return put_ulong(p, (unsigned long)v);
}

static void raw_write_all(int fd, const char *buf, size_t len) {
    while (len > 0) {
        long r = syscall(SYS_write, fd, buf, len);
        if (r < 0) { if (errno == EINTR) continue; return; }
        buf += r; len -= (size_t)r;
    }
}

static void log_event(char kind, int fd, long req, long ret, int err, const char *act,
                      const unsigned char *data, long dlen) {
    int saved = errno;
    unsigned long seq = g_seq++;
    if (g_logfd >= 0) {
        char head[160]; char *p = head;
        p = put_ulong(p, seq); *p++ = ' ';
        *p++ = kind; *p++ = ' ';
        p = put_long(p, fd); *p++ = ' ';
        p = put_long(p, req); *p++ = ' ';
        p = put_long(p, ret); *p++ = ' ';
        p = put_long(p, err); *p++ = ' ';
        for (const char *a = act; *a && p < head + sizeof head - 4; a++) *p++ = *a;
        *p++ = ' ';
        raw_write_all(g_logfd, head, (size_t)(p - head));
        if (data && dlen > 0) {
            static const char hx[] = "0123456789abcdef";
            char chunk[512]; int n = 0;
            for (long i = 0; i < dlen; i++) {
                chunk[n++] = hx[data[i] >> 4]; chunk[n++] = hx[data[i] & 15];
                if (n >= (int)sizeof chunk - 2) { raw_write_all(g_logfd, chunk, (size_t)n); n = 0; }
            }
            if (n) raw_write_all(g_logfd, chunk, (size_t)n);
        } else {
            raw_write_all(g_logfd, "-", 1);
        }
        raw_write_all(g_logfd, "\n", 1);
    }
    errno = saved;
}

static void maybe_kill(void) {
    if (g_kill >= 0 && (long)g_seq == g_kill) {
        log_event('K', -1, 0, 0, 0, "kill", NULL, 0);
        syscall(SYS_exit_group, 137);
    }
}

static struct rule *find_rule(struct rule *rs, int n, int fd, long idx, int match_fd) {
    for (int i = 0; i < n; i++) {
        if (rs[i].used) continue;
        if (match_fd && rs[i].fd != fd) continue;
        if (rs[i].n == idx) { rs[i].used = 1; return &rs[i]; }
    }
    return NULL;
}

/* --------------------------------------------------------------- write */

static ssize_t do_write(int rfd, const void *buf, size_t count) {
    plan_init();
    int fd = (rfd == g_logfd) ? 0 : alias_of(rfd);
    if (fd != 1 && fd != 2) {
        return (ssize_t)syscall(SYS_write, rfd, buf, count);
    }
    maybe_kill();
    long idx = g_wcount[fd]++;
    struct rule *r = find_rule(g_w, g_nw, fd, idx, 1);
    const char *act = "-";
    size_t allow = count;

    if (g_wpersist[fd]) {
        errno = g_wpersist[fd];
        log_event('W', fd, (long)count, -1, errno, "perr", NULL, 0);
        return -1;
    }
    if (g_wpending[fd]) {
        int e = g_wpending[fd];
        g_wpending[fd] = 0;
        if (g_wpending_persist[fd]) g_wpersist[fd] = e;
        errno = e;
        log_event('W', fd, (long)count, -1, e, "pend", NULL, 0);
        return -1;
    }
    if (r) {
        switch (r->kind) {
        case A_EINTR:
            errno = EINTR;
            log_event('W', fd, (long)count, -1, EINTR, "eintr", NULL, 0);
            return -1;
        case A_ERR:
            errno = r->err;
            log_event('W', fd, (long)count, -1, r->err, "err", NULL, 0);
            return -1;
        case A_PERR:
            g_wpersist[fd] = r->err;
            errno = r->err;
            log_event('W', fd, (long)count, -1, r->err, "perr", NULL, 0);
            return -1;
        case A_ZERO:
            if (count > 0) {
                log_event('W', fd, (long)count, 0, 0, "zero", NULL, 0);
                return 0;
            }
            break;
        case A_SHORT:
            if (r->arg >= 1 && (size_t)r->arg < allow) { allow = (size_t)r->arg; act = "short"; }
            break;
        case A_PART:
        case A_PPART:
            if (r->arg <= 0 || count <= 1) {
                /* nothing can be torn off: fail right here */
                if (r->kind == A_PPART) g_wpersist[fd] = r->err;
                errno = r->err;
                log_event('W', fd, (long)count, -1, r->err, "part0", NULL, 0);
                return -1;
            }
            allow = (size_t)r->arg < count ? (size_t)r->arg : count - 1;
            g_wpending[fd] = r->err;
            g_wpending_persist[fd] = (r->kind == A_PPART);
            act = "part";
            break;
        default: break;
        }
    }
    if (g_wchunk_max[fd] >= 1 && allow > 0) {
        size_t k = 1 + (size_t)(splitmix(&g_wchunk_state[fd]) % (unsigned long long)g_wchunk_max[fd]);
        if (k < allow) { allow = k; if (act[0] == '-') act = "chunk"; }
    }
    long ret = syscall(SYS_write, rfd, buf, allow);
    int e = ret < 0 ? errno : 0;
    log_event('W', fd, (long)count, ret, e, act, ret > 0 ? (const unsigned char *)buf : NULL, ret > 0 ? ret : 0);
    errno = e;
    return (ssize_t)ret;
}

ssize_t write(int fd, const void *buf, size_t count) { return do_write(fd, buf, count); }
ssize_t __write(int fd, const void *buf, size_t count) { return do_write(fd, buf, count); }

ssize_t writev(int fd, const struct iovec *iov, int iovcnt) {
    plan_init();
    if (fd == g_logfd || (alias_of(fd) != 1 && alias_of(fd) != 2)) return (ssize_t)syscall(SYS_writev, fd, iov, iovcnt);
    /* deliver the first non-empty buffer only: a legal short writev */
    for (int i = 0; i < iovcnt; i++) {
        if (iov[i].iov_len > 0) return do_write(fd, iov[i].iov_base, iov[i].iov_len);
    }
    return do_write(fd, "", 0);
}

/* ---------------------------------------------------------------- open */

static int path_is_script(int dirfd, const char *path) {
    if (!g_have_ino || !path) return 0;
    struct stat st;
    long r = syscall(SYS_newfstatat, dirfd, path, &st, 0);
    if (r != 0) return 0;
    return (unsigned long long)st.st_dev == g_dev && (unsigned long long)st.st_ino == g_ino;
}

static void load_virtual(int fd) {
    if (g_vbuf) return;
    struct stat st;
    if (syscall(SYS_fstat, fd, &st) != 0) return;
    long cap = (long)st.st_size + 32;
    unsigned char *raw = malloc((size_t)cap);
    if (!raw) return;
    long n = 0;
    for (;;) {
        long r = syscall(SYS_pread64, fd, raw + n, (size_t)(cap - n), (off_t)n);
        if (r < 0) { if (errno == EINTR) continue; break; }
        if (r == 0) break;
        n += r;
        if (n == cap) { cap *= 2; unsigned char *nr = realloc(raw, (size_t)cap); if (!nr) break; raw = nr; }
    }
    /* apply flip, then eof */
    if (g_flip_off >= 0 && g_flip_off < n) {
        long nn = n - 1 + g_flip_len;
        unsigned char *nb = malloc((size_t)nn + 1);
        if (nb) {
            memcpy(nb, raw, (size_t)g_flip_off);
            memcpy(nb + g_flip_off, g_flip_bytes, (size_t)g_flip_len);
            memcpy(nb + g_flip_off + g_flip_len, raw + g_flip_off + 1, (size_t)(n - g_flip_off - 1));
            free(raw); raw = nb; n = nn;
        }
    }
    if (g_eof >= 0 && g_eof < n) n = g_eof;
    g_vbuf = raw; g_vlen = n;
}

static int do_open(int dirfd, const char *path, int flags, mode_t mode) {
    plan_init();
    int script = path_is_script(dirfd, path);
    if (script) {
        maybe_kill();
        long idx = g_ocount++;
        struct rule *r = find_rule(g_o, g_no, 0, idx, 0);
        if (r && (r->kind == A_ERR || r->kind == A_PERR || r->kind == A_EINTR)) {
            int e = r->kind == A_EINTR ? EINTR : r->err;
            if (r->kind == A_PERR) { r->used = 0; r->n = idx + 1; }
            errno = e;
            log_event('O', -1, 0, -1, e, r->kind == A_EINTR ? "eintr" : "err", NULL, 0);
            return -1;
        }
    }
    long fd = syscall(SYS_openat, dirfd, path, flags, mode);
    int e = fd < 0 ? errno : 0;
    if (script) {
        if (fd >= 0 && fd < MAX_FDS) {
            g_is_script[fd] = 1;
            /* a pipe has one stream position however often it is opened: bytes read through
               one descriptor are gone for the next */
            g_vpos[fd] = g_ftype ? g_stream_pos : 0;
            g_nonblock[fd] = (flags & O_NONBLOCK) ? 1 : 0;
            if (g_virtual) load_virtual((int)fd);
        }
        log_event('O', (int)fd, 0, fd, e, "-", NULL, 0);
    } else if (g_main_started && path) {
        log_event('o', (int)fd, 0, fd, e, "-", (const unsigned char *)path, (long)strlen(path));
    }
    if (fd >= 0 && fd < MAX_FDS && path) {
        g_alias[fd] = 0;
        if (!strcmp(path, "/dev/stdout") || !strcmp(path, "/proc/self/fd/1") || !strcmp(path, "/dev/fd/1")) g_alias[fd] = 1;
        if (!strcmp(path, "/dev/stderr") || !strcmp(path, "/proc/self/fd/2") || !strcmp(path, "/dev/fd/2")) g_alias[fd] = 2;
    }
    errno = e;
    return (int)fd;
}

int open(const char *path, int flags, ...) {
    mode_t mode = 0;
    if (flags & (O_CREAT | O_TMPFILE)) { va_list ap; va_start(ap, flags); mode = va_arg(ap, mode_t); va_end(ap); }
    return do_open(AT_FDCWD, path, flags, mode);
}
int open64(const char *path, int flags, ...) {
    mode_t mode = 0;
    if (flags & (O_CREAT | O_TMPFILE)) { va_list ap; va_start(ap, flags); mode = va_arg(ap, mode_t); va_end(ap); }
    return do_open(AT_FDCWD, path, flags, mode);
}
int openat(int dirfd, const char *path, int flags, ...) {
    mode_t mode = 0;
    if (flags & (O_CREAT | O_TMPFILE)) { va_list ap; va_start(ap, flags); mode = va_arg(ap, mode_t); va_end(ap); }
    return do_open(dirfd, path, flags, mode);
}
int openat64(int dirfd, const char *path, int flags, ...) {
    mode_t mode = 0;
    if (flags & (O_CREAT | O_TMPFILE)) { va_list ap; va_start(ap, flags); mode = va_arg(ap, mode_t); va_end(ap); }
    return do_open(dirfd, path, flags, mode);
}

/* -------------------------------------------------------------- isatty */

int isatty(int fd) {
    plan_init();
    if (fd >= 0 && fd < MAX_FDS && g_is_script[fd]) {
        int yes = g_ftype == 3;
        log_event('S', fd, 0, yes, 0, yes ? "isatty" : "-", NULL, 0);
        if (yes) return 1;
        errno = ENOTTY;
        return 0;
    }
    unsigned char buf[256]; /* larger than any kernel struct termios */
    long r = syscall(SYS_ioctl, fd, 0x5401 /* TCGETS */, buf);
    if (r == 0) return 1;
    return 0;
}

/* ----------------------------------------------------------------- dup */

int dup(int fd) {
    plan_init();
    long r = syscall(SYS_dup, fd);
    if (r >= 0 && r < MAX_FDS) g_alias[r] = (unsigned char)alias_of(fd);
    return (int)r;
}
int dup3(int fd, int nfd, int flags) {
    plan_init();
    int a = alias_of(fd);
    long r = syscall(SYS_dup3, fd, nfd, flags);
    if (r >= 0 && r < MAX_FDS && r != 1 && r != 2) g_alias[r] = (unsigned char)a;
    return (int)r;
}
int dup2(int fd, int nfd) {
    plan_init();
    if (fd == nfd) return (int)syscall(SYS_fcntl, fd, F_GETFD) < 0 ? -1 : nfd;
    return dup3(fd, nfd, 0);
}

/* --------------------------------------------------------------- fcntl */

static int do_fcntl(int fd, int cmd, long arg) {
    plan_init();
    long r = syscall(SYS_fcntl, fd, cmd, arg);
    if (r >= 0 && cmd == F_SETFL && fd >= 0 && fd < MAX_FDS && g_is_script[fd]) g_nonblock[fd] = (arg & O_NONBLOCK) ? 1 : 0;
    if (r >= 0 && r < MAX_FDS && (cmd == F_DUPFD || cmd == F_DUPFD_CLOEXEC)) g_alias[r] = (unsigned char)alias_of(fd);
    return (int)r;
}
int fcntl(int fd, int cmd, ...) { va_list ap; va_start(ap, cmd); long arg = va_arg(ap, long); va_end(ap); return do_fcntl(fd, cmd, arg); }
int fcntl64(int fd, int cmd, ...) { va_list ap; va_start(ap, cmd); long arg = va_arg(ap, long); va_end(ap); return do_fcntl(fd, cmd, arg); }

/* ---------------------------------------------------------------- read */

static ssize_t do_read(int fd, void *buf, size_t count) {
    plan_init();
    if (fd < 0 || fd >= MAX_FDS || !g_is_script[fd]) {
        long r = syscall(SYS_read, fd, buf, count);
        if (fd == 0) { int e = r < 0 ? errno : 0; log_event('r', fd, (long)count, r, e, "-", NULL, 0); errno = e; }
        return (ssize_t)r;
    }
    maybe_kill();
    long idx = g_rcount++;
    struct rule *r = find_rule(g_r, g_nr, 0, idx, 0);
    const char *act = "-";
    if (g_ftype == 1 && g_nonblock[fd] && g_nb_mode == 1) {
        /* non-blocking read end of a FIFO that has no writer yet: end of file */
        log_event('R', fd, (long)count, 0, 0, "nbeof", NULL, 0);
        return 0;
    }
    if (g_ftype == 1 && g_nonblock[fd] && g_nb_mode == 2 && !g_nb_done && idx >= g_nb_n) {
        g_nb_done = 1;
        errno = EAGAIN;
        log_event('R', fd, (long)count, -1, EAGAIN, "nbagain", NULL, 0);
        return -1;
    }
    if (g_rpersist) {
        errno = g_rpersist;
        log_event('R', fd, (long)count, -1, errno, "perr", NULL, 0);
        return -1;
    }
    if (g_rpending) {
        int e = g_rpending; g_rpending = 0;
        if (g_rpending_persist) g_rpersist = e;
        errno = e;
        log_event('R', fd, (long)count, -1, e, "pend", NULL, 0);
        return -1;
    }
    if (!g_virtual || !g_vbuf) {
        long ret = syscall(SYS_read, fd, buf, count);
        int e = ret < 0 ? errno : 0;
        log_event('R', fd, (long)count, ret, e, "-", NULL, 0);
        errno = e;
        return (ssize_t)ret;
    }
    size_t allow = count;
    if (r) {
        switch (r->kind) {
        case A_EINTR:
            errno = EINTR;
            log_event('R', fd, (long)count, -1, EINTR, "eintr", NULL, 0);
            return -1;
        case A_ERR:
            errno = r->err;
            log_event('R', fd, (long)count, -1, r->err, "err", NULL, 0);
            return -1;
        case A_PERR:
            g_rpersist = r->err; errno = r->err;
            log_event('R', fd, (long)count, -1, r->err, "perr", NULL, 0);
            return -1;
        case A_SHORT:
            if (r->arg >= 1 && (size_t)r->arg < allow) { allow = (size_t)r->arg; act = "short"; }
            break;
        case A_PART:
        case A_PPART:
            if (r->arg >= 1 && (size_t)r->arg < allow) allow = (size_t)r->arg;
            g_rpending = r->err; g_rpending_persist = (r->kind == A_PPART);
            act = "part";
            break;
        default: break;
        }
    }
    if (g_rchunk_max >= 1) {
        /* large scripts: keep the number of reads (and log records) in the low thousands */
        unsigned long long cmax = (unsigned long long)g_rchunk_max;
        if (g_vlen > 32768 && cmax < (unsigned long long)(g_vlen / 2000)) cmax = (unsigned long long)(g_vlen / 2000);
        size_t k = 1 + (size_t)(splitmix(&g_rchunk_state) % cmax);
        if (k < allow) { allow = k; if (act[0] == '-') act = "chunk"; }
    }
    long avail = g_vlen - g_vpos[fd];
    if (avail < 0) avail = 0;
    if ((long)allow > avail) allow = (size_t)avail;
    memcpy(buf, g_vbuf + g_vpos[fd], allow);
    g_vpos[fd] += (long)allow;
    if (g_ftype && g_vpos[fd] > g_stream_pos) g_stream_pos = g_vpos[fd];
    log_event('R', fd, (long)count, (long)allow, 0, act, NULL, 0);
    return (ssize_t)allow;
}

ssize_t read(int fd, void *buf, size_t count) { return do_read(fd, buf, count); }
ssize_t __read(int fd, void *buf, size_t count) { return do_read(fd, buf, count); }

ssize_t readv(int fd, const struct iovec *iov, int iovcnt) {
    plan_init();
    if (fd < 0 || fd >= MAX_FDS || !g_is_script[fd]) return (ssize_t)syscall(SYS_readv, fd, iov, iovcnt);
    for (int i = 0; i < iovcnt; i++) {
        if (iov[i].iov_len > 0) return do_read(fd, iov[i].iov_base, iov[i].iov_len);
    }
    return 0;
}

ssize_t pread(int fd, void *buf, size_t count, off_t off) {
    plan_init();
    if (fd >= 0 && fd < MAX_FDS && g_is_script[fd] && g_virtual && g_vbuf) {
        long save = g_vpos[fd]; g_vpos[fd] = (long)off;
        ssize_t r = do_read(fd, buf, count);
        g_vpos[fd] = save;
        return r;
    }
    return (ssize_t)syscall(SYS_pread64, fd, buf, count, off);
}
ssize_t pread64(int fd, void *buf, size_t count, off_t off) { return pread(fd, buf, count, off); }

/* --------------------------------------------------------------- close */

int close(int fd) {
    plan_init();
    if (fd >= 0 && fd < MAX_FDS && g_is_script[fd]) {
        maybe_kill();
        g_is_script[fd] = 0;
        long r = syscall(SYS_close, fd);
        int e = r < 0 ? errno : 0;
        log_event('C', fd, 0, r, e, "-", NULL, 0);
        errno = e;
        return (int)r;
    }
    if (fd == g_logfd && g_logfd >= 0) return 0; /* keep the log alive */
    if (fd >= 3 && fd < MAX_FDS) g_alias[fd] = 0;
    return (int)syscall(SYS_close, fd);
}

/* ---------------------------------------------------------------- stat */

struct statx;
int statx(int dirfd, const char *path, int flags, unsigned int mask, struct statx *buf) {
    plan_init();
    long r = syscall(SYS_statx, dirfd, path, flags, mask, buf);
    int e = r < 0 ? errno : 0;
    int script = 0;
    if (path[0] == 0 && (flags & AT_EMPTY_PATH) && dirfd >= 0 && dirfd < MAX_FDS && g_is_script[dirfd]) script = 1;
    if (!script && g_main_started && path[0] != 0)
        log_event('s', -1, 0, r, e, "-", (const unsigned char *)path, (long)strlen(path));
    if (!script && r == 0 && g_ftype && g_have_ino) {
        /* a stat by path that lands on the script: stx_ino at 32, stx_dev_major/minor at 136/140 */
        uint64_t ino; uint32_t maj, min;
        memcpy(&ino, (unsigned char *)buf + 32, sizeof ino);
        memcpy(&maj, (unsigned char *)buf + 136, sizeof maj);
        memcpy(&min, (unsigned char *)buf + 140, sizeof min);
        if (ino == g_ino && (unsigned long long)makedev(maj, min) == g_dev) script = 2;
    }
    if (script) {
        if (r == 0 && g_hint >= 0) {
            /* stx_size lives at byte offset 40 of struct statx */
            uint64_t v = (uint64_t)g_hint;
            memcpy((unsigned char *)buf + 40, &v, sizeof v);
        }
        if (r == 0 && g_ftype) {
            /* stx_mode (u16) lives at byte offset 28 */
            uint16_t m; uint64_t z = 0;
            memcpy(&m, (unsigned char *)buf + 28, sizeof m);
            m = (uint16_t)((m & 07777) | (g_ftype == 1 ? S_IFIFO : S_IFCHR));
            memcpy((unsigned char *)buf + 28, &m, sizeof m);
            memcpy((unsigned char *)buf + 40, &z, sizeof z);
        }
        log_event('S', script == 1 ? dirfd : -1, 0, r, e, g_ftype ? "ftype" : (g_hint >= 0 ? "hint" : "-"), NULL, 0);
    }
    errno = e;
    return (int)r;
}

int fstat(int fd, struct stat *st) {
    plan_init();
    long r = syscall(SYS_fstat, fd, st);
    int e = r < 0 ? errno : 0;
    if (fd >= 0 && fd < MAX_FDS && g_is_script[fd]) {
        if (r == 0 && g_hint >= 0) st->st_size = (off_t)g_hint;
        if (r == 0 && g_ftype) { st->st_mode = (st->st_mode & 07777) | (g_ftype == 1 ? S_IFIFO : S_IFCHR); st->st_size = 0; }
        log_event('S', fd, 0, r, e, g_ftype ? "ftype" : (g_hint >= 0 ? "hint" : "-"), NULL, 0);
    }
    errno = e;
    return (int)r;
}
int fstat64(int fd, struct stat64 *st) { return fstat(fd, (struct stat *)st); }

off_t lseek(int fd, off_t off, int whence) {
    plan_init();
    if (fd >= 0 && fd < MAX_FDS && g_is_script[fd] && g_ftype) { errno = ESPIPE; return (off_t)-1; }
    if (fd >= 0 && fd < MAX_FDS && g_is_script[fd] && g_virtual && g_vbuf) {
        long np;
        if (whence == SEEK_SET) np = (long)off;
        else if (whence == SEEK_CUR) np = g_vpos[fd] + (long)off;
        else np = g_vlen + (long)off;
        if (np < 0) { errno = EINVAL; return (off_t)-1; }
        g_vpos[fd] = np;
        return (off_t)np;
    }
    return (off_t)syscall(SYS_lseek, fd, off, whence);
}
off_t lseek64(int fd, off_t off, int whence) { return lseek(fd, off, whence); }

/* -------------------------------------------------------------- getcwd */

char *getcwd(char *buf, size_t size) {
    plan_init();
    g_main_started = 1;
    maybe_kill();
    long idx = g_ccount++;
    struct rule *r = find_rule(g_c, g_nc, 0, idx, 0);
    if (r) {
        int e = 0;
        if (r->kind == A_ERANGE) e = ERANGE;
        else if (r->kind == A_ERR) e = r->err;
        else if (r->kind == A_PERR) { e = r->err; r->used = 0; r->n = idx + 1; }
        else if (r->kind == A_EINTR) e = EINTR;
        if (e) {
            errno = e;
            log_event('G', -1, (long)size, -1, e, r->kind == A_ERANGE ? "erange" : "err", NULL, 0);
            return NULL;
        }
    }
    if (!buf) {
        /* glibc extension: allocate */
        size_t cap = size ? size : 4096;
        char *nb = malloc(cap);
        if (!nb) { errno = ENOMEM; return NULL; }
        long rr = syscall(SYS_getcwd, nb, cap);
        if (rr < 0) { int e = errno; free(nb); log_event('G', -1, (long)size, -1, e, "-", NULL, 0); errno = e; return NULL; }
        log_event('G', -1, (long)size, rr, 0, "-", NULL, 0);
        return nb;
    }
    long rr = syscall(SYS_getcwd, buf, size);
    int e = rr < 0 ? errno : 0;
    log_event('G', -1, (long)size, rr, e, "-", NULL, 0);
    errno = e;
    return rr < 0 ? NULL : buf;
}

/* ----------------------------------------------------------- getrandom */

ssize_t getrandom(void *buf, size_t len, unsigned int flags) {
    plan_init();
    if (g_rand_len <= 0) {
        long r = syscall(SYS_getrandom, buf, len, flags);
        int e = r < 0 ? errno : 0;
        log_event('X', -1, (long)len, r, e, "real", NULL, 0);
        errno = e;
        return (ssize_t)r;
    }
    unsigned char *o = buf;
    for (size_t i = 0; i < len; i++) o[i] = g_rand[(g_rand_pos++) % (unsigned long)g_rand_len];
    log_event('X', -1, (long)len, (long)len, 0, "plan", NULL, 0);
    return (ssize_t)len;
}

/* ----------------------------------------------- environment, clock, pid */

char *getenv(const char *name) {
    plan_init();
    char *v = env_lookup(name);
    if (g_main_started && strncmp(name, "SEEDSIM_", 8) != 0)
        log_event('E', -1, 0, v ? 1 : 0, 0, "-", (const unsigned char *)name, (long)strlen(name));
    return v;
}
char *secure_getenv(const char *name) { return getenv(name); }

#include <time.h>
#include <sys/time.h>

int clock_gettime(clockid_t clk, struct timespec *ts) {
    plan_init();
    if (g_clock < 0) return (int)syscall(SYS_clock_gettime, clk, ts);
    long long ms = (long long)(g_clock_calls++) * g_clock_step_ms;
    ts->tv_sec = g_clock + (long)(ms / 1000); ts->tv_nsec = (long)(ms % 1000) * 1000000L;
    log_event('T', (int)clk, 0, 0, 0, "plan", NULL, 0);
    return 0;
}

int gettimeofday(struct timeval *tv, void *tz) {
    plan_init();
    (void)tz;
    if (g_clock < 0) return (int)syscall(SYS_gettimeofday, tv, tz);
    long long ms = (long long)(g_clock_calls++) * g_clock_step_ms;
    tv->tv_sec = g_clock + (long)(ms / 1000); tv->tv_usec = (long)(ms % 1000) * 1000L;
    log_event('T', -1, 0, 0, 0, "plan", NULL, 0);
    return 0;
}

time_t time(time_t *t) {
    plan_init();
    if (g_clock < 0) { time_t r = (time_t)syscall(SYS_time, t); return r; }
    long long ms = (long long)(g_clock_calls++) * g_clock_step_ms;
    time_t r = (time_t)(g_clock + (long)(ms / 1000));
    if (t) *t = r;
    log_event('T', -1, 0, 0, 0, "plan", NULL, 0);
    return r;
}

pid_t getpid(void) {
    plan_init();
    if (g_pid < 0) return (pid_t)syscall(SYS_getpid);
    log_event('P', -1, 0, g_pid, 0, "plan", NULL, 0);
    return (pid_t)g_pid;
}

/* existence probes of other files: logged so that the simulator can create them */
int stat(const char *path, struct stat *st) {
    plan_init();
    long r = syscall(SYS_newfstatat, AT_FDCWD, path, st, 0);
    int e = r < 0 ? errno : 0;
    if (g_main_started) log_event('s', -1, 0, r, e, "-", (const unsigned char *)path, (long)strlen(path));
    errno = e;
    return (int)r;
}
int lstat(const char *path, struct stat *st) {
    plan_init();
    long r = syscall(SYS_newfstatat, AT_FDCWD, path, st, AT_SYMLINK_NOFOLLOW);
    int e = r < 0 ? errno : 0;
    if (g_main_started) log_event('s', -1, 0, r, e, "-", (const unsigned char *)path, (long)strlen(path));
    errno = e;
    return (int)r;
}
int access(const char *path, int mode) {
    plan_init();
    long r = syscall(SYS_access, path, mode);
    int e = r < 0 ? errno : 0;
    if (g_main_started) log_event('s', -1, 0, r, e, "-", (const unsigned char *)path, (long)strlen(path));
    errno = e;
    return (int)r;
}
